// Native demonstration of F-C05-double-put (appended to src/cache/command/command_executor.rs of a scratch copy).
// Two Put commands for ONE key are queued before the first is applied (each passed the caller-side
// existence check); afterwards the accounting must still match the held keys.
#[cfg(test)]
mod verif_double_put {
    use std::sync::Arc;
    use std::time::Duration;

    use crate::cache::clock::SystemClock;
    use crate::cache::command::{CommandStatus, CommandType};
    use crate::cache::command::command_executor::CommandExecutor;
    use crate::cache::command::command_executor::Store;
    use crate::cache::expiration::config::TTLConfig;
    use crate::cache::expiration::TTLTicker;
    use crate::cache::key_description::KeyDescription;
    use crate::cache::policy::admission_policy::AdmissionPolicy;
    use crate::cache::policy::config::CacheWeightConfig;
    use crate::cache::stats::ConcurrentStatsCounter;

    #[tokio::test]
    async fn two_queued_puts_of_one_key_keep_the_accounting_exact() {
        let stats_counter = Arc::new(ConcurrentStatsCounter::new());
        let store: Arc<Store<&'static str, &'static str>> = Store::new(SystemClock::boxed(), stats_counter.clone(), 16, 4);
        let admission_policy = Arc::new(AdmissionPolicy::new(10, CacheWeightConfig::new(100, 4, 100), stats_counter.clone()));
        let ticker = TTLTicker::new(TTLConfig::new(4, Duration::from_secs(300), SystemClock::boxed()), |_key_id| {});
        let command_executor = CommandExecutor::new(store.clone(), admission_policy.clone(), stats_counter, ticker, 10);

        let first = command_executor.send(CommandType::Put(KeyDescription::new("topic", 1, 1029, 10), "v1")).unwrap();
        let second = command_executor.send(CommandType::Put(KeyDescription::new("topic", 2, 1029, 7), "v2")).unwrap();
        let first_status = first.handle().await;
        let second_status = second.handle().await;
        assert_eq!(CommandStatus::Accepted, first_status);

        // the first put is never overwritten, and only ONE id is charged for the one held key
        assert_eq!(Some("v1"), store.get(&"topic"), "second status was {:?}", second_status);
        assert_eq!(10, admission_policy.weight_used());

        // deleting the key releases everything
        let status = command_executor.send(CommandType::Delete("topic")).unwrap().handle().await;
        assert_eq!(CommandStatus::Accepted, status);
        assert_eq!(0, admission_policy.weight_used(), "weight stays charged for a key that is gone");
        command_executor.shutdown().unwrap().handle().await;
    }
}
