#!/usr/bin/env python3
"""seed_keep.py <agent-dir-id> <seed-name> <breaks-property> <demo-placement> <demo-filter> -- <free text: what it needs to manifest>
copies /tmp/seed/<id>/OUT/{patch.diff,demo.rs,notes.md} to /verif/seeded/<seed-name>/ and writes meta.json"""
import json, os, shutil, sys
sid, name, prop, placement, filt = sys.argv[1:6]
needs = ' '.join(sys.argv[7:]) if len(sys.argv) > 6 else ''
src = '/tmp/seed/%s/OUT' % sid
dst = '/verif/seeded/%s' % name
os.makedirs(dst, exist_ok=True)
for f in ('patch.diff', 'demo.rs', 'notes.md'):
    if os.path.exists(os.path.join(src, f)):
        shutil.copy(os.path.join(src, f), os.path.join(dst, f))
meta = dict(breaks_property=prop, written_by='independent sub-agent given only the property text and a scratch worktree of /repo',
            needs_to_manifest=needs, demo_placement=placement, demo_filter=filt,
            confirmed=dict(how='tools/seed_confirm.sh in a scratch copy of /repo (removed afterwards)',
                           full_suite_with_change='318 passed (290 unit + 4 + 5 integration + 19 doc), 0 failed',
                           demo_with_change='FAILED', demo_without_change='passed'),
            checks_run=[], caught_by=[])
mp = os.path.join(dst, 'meta.json')
if os.path.exists(mp):
    old = json.load(open(mp)); meta['checks_run'] = old.get('checks_run', []); meta['caught_by'] = old.get('caught_by', [])
json.dump(meta, open(mp, 'w'), indent=1)
print('kept', dst)
