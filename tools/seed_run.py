#!/usr/bin/env python3
"""seed_run.py <seed-name> <property...> : apply /verif/seeded/<seed-name>/patch.diff to /repo, run ./vcheck <property> (quick),
undo it (git -C /repo checkout -- .), and record checks_run / caught_by / verdict in meta.json"""
import json, os, re, subprocess, sys
name, props = sys.argv[1], sys.argv[2:]
d = '/verif/seeded/' + name
mp = d + '/meta.json'
meta = json.load(open(mp))
assert subprocess.run(['git', '-C', '/repo', 'status', '--porcelain'], capture_output=True, text=True).stdout.strip() == '', '/repo is not clean'
subprocess.run(['git', '-C', '/repo', 'apply', d + '/patch.diff'], check=True)
caught, runs, exits = [], [], {}
try:
    for p in props:
        r = subprocess.run(['/verif/vcheck', p], capture_output=True, text=True, cwd='/verif')
        out = r.stdout + r.stderr
        exits[p] = r.returncode
        runs.append('./vcheck %s (quick) on /repo with the patch applied, then git -C /repo checkout -- . : exit %d' % (p, r.returncode))
        for m in re.finditer(r'failed obligation: (\S+)', out):
            ob = m.group(1)
            replayed = bool(re.search(r'VIOLATION property=%s replay=\S*%s\S*\s*$' % (p, re.escape(ob.split(':', 1)[1].replace('/', '_').replace('::', '_'))), out, re.M))
            caught.append('%s [%s]%s' % (ob, p, ' (counterexample replayed on the real code)' if replayed else ''))
        print('== %s exit=%d' % (p, r.returncode))
        print('\n'.join(l for l in out.split('\n') if re.match(r'(VIOLATION|UNDECIDED|KNOWN-FINDING|\s+failed obligation|C\d\d tier)', l))[:3000])
finally:
    subprocess.run(['git', '-C', '/repo', 'checkout', '--', '.'], check=True)
    st = subprocess.run(['git', '-C', '/repo', 'status', '--porcelain'], capture_output=True, text=True).stdout.strip()
    print('/repo after undo:', st or 'clean')
meta['checks_run'] = runs
meta['caught_by'] = caught
if any(e == 1 for e in exits.values()):
    meta['verdict'] = 'caught: exit 1 with a VIOLATION line'
elif any(e == 2 for e in exits.values()):
    meta['verdict'] = 'UNDECIDED (exit 2): not counted as caught'
else:
    meta['verdict'] = 'MISSED: exit 0'
json.dump(meta, open(mp, 'w'), indent=1)
print(meta['verdict'], caught)
