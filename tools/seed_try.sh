#!/bin/bash
# seed_try.sh <patch-file> <property...> : development aid - run the checks against a scratch COPY of /repo with the patch applied
# (/repo is not touched; the recorded results in seeded/*/meta.json come from tools/seed_check.sh, which applies the patch to /repo itself)
PATCH=$1; shift
T=/tmp/try.$$
rm -rf $T; mkdir -p $T; rsync -a --exclude target --exclude .git /repo/ $T/
( cd $T && git init -q . && git apply $PATCH ) || { echo "patch does not apply"; rm -rf $T; exit 1; }
rm -rf $T/.git
cd /verif
for P in "$@"; do
  echo "=== ./vcheck $P on copy + $(basename $(dirname $PATCH))"
  VERIF_REPO=$T VERIF_NO_NATIVE_REPLAY=${NO_REPLAY:-1} ./vcheck $P 2>&1 | grep -v "^WARNING" | tail -${TAILN:-6}
  echo "exit=${PIPESTATUS[0]}"
done
rm -rf $T
