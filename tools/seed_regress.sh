#!/bin/bash
# seed_regress.sh : re-run every kept seeded change the official way (apply to /repo, quick check of its property, undo) and rewrite meta.json / RESULTS.md
cd /verif
for d in seeded/*/; do
  n=$(basename $d)
  [ -f $d/meta.json ] || continue
  p=$(python3 -c "import json;print(json.load(open('$d/meta.json'))['breaks_property'])")
  echo "##### $n ($p)"
  python3 tools/seed_run.py $n $p 2>&1 | grep -E "^(==|caught|MISSED|UNDECIDED)" 
done
python3 tools/seed_results.py | tail -2
echo ALL-REGRESS-DONE
