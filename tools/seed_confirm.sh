#!/bin/bash
# seed_confirm.sh <seed-id> <demo-target-relative-path|tests/NAME.rs> <demo-test-filter>
# Confirms a seeded change in a scratch copy of /repo: (1) it applies and the full suite passes with it,
# (2) the demonstration fails with it, (3) the demonstration passes without it.
set -u
ID=$1; TARGET=$2; FILTER=$3
SRC=/tmp/seed/$ID/OUT
W=/tmp/confirm/$ID
rm -rf $W; mkdir -p $W; rsync -a --exclude target --exclude .git /repo/ $W/repo/
cd $W/repo
export CARGO_TARGET_DIR=/tmp/confirm/target
place_demo() {
  case "$TARGET" in
    tests/*) cp $SRC/demo.rs $W/repo/$TARGET ;;
    *) cat $SRC/demo.rs >> $W/repo/$TARGET ;;
  esac
}
git init -q . 2>/dev/null; git add -A >/dev/null 2>&1; git -c user.name=x -c user.email=x@x commit -qm base >/dev/null 2>&1
git apply $SRC/patch.diff || { echo "PATCH DOES NOT APPLY"; exit 1; }
echo "== full suite WITH the change"
cargo test --offline --no-fail-fast 2>&1 | grep -E "^test result|FAILED|failed" | head -12
place_demo
echo "== demo WITH the change (expected: FAIL)"
cargo test --offline $FILTER 2>&1 | grep -E "^test result|^test .*(ok|FAILED)$" | head -12
git apply -R $SRC/patch.diff
echo "== demo WITHOUT the change (expected: pass)"
cargo test --offline $FILTER 2>&1 | grep -E "^test result|^test .*(ok|FAILED)$" | head -12
cd /; rm -rf $W
