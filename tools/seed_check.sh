#!/bin/bash
# seed_check.sh <seed-id> <property...> : apply the seeded change to /repo, run the checks, undo it
ID=$1; shift
cd /verif
git -C /repo apply /tmp/seed/$ID/OUT/patch.diff || { echo "patch does not apply to /repo"; exit 1; }
for P in "$@"; do
  echo "=== ./vcheck $P on /repo + seed $ID"
  VERIF_NO_NATIVE_REPLAY=${NO_REPLAY:-0} ./vcheck $P 2>&1 | grep -v "^WARNING" | tail -${TAILN:-6}
  echo "exit=${PIPESTATUS[0]}"
done
git -C /repo checkout -- .
git -C /repo status --short | head -3
