#!/usr/bin/env python3
"""writes /verif/seeded/RESULTS.md from the meta.json files"""
import json, os
root = '/verif/seeded'
rows = []
for d in sorted(os.listdir(root)):
    mp = os.path.join(root, d, 'meta.json')
    if not os.path.exists(mp):
        continue
    m = json.load(open(mp))
    rows.append((d, m))
out = ['# Seeded property-breaking changes and which checks catch them', '',
       'Every change below was written by an independent sub-agent that was given only the text of one property and a scratch',
       'worktree of /repo (nothing from /verif). Each was confirmed in a scratch copy (`tools/seed_confirm.sh`): it applies, the',
       'whole existing suite (318 tests incl. doc tests) passes with it, its demonstration fails with it and passes without it.',
       'Then it was applied to /repo (`git -C /repo apply`), the quick checks named below were run, and it was undone.', '',
       '| seed | breaks | needs, to manifest | verdict | caught by |', '|---|---|---|---|---|']
for d, m in rows:
    out.append('| `%s` | %s | %s | %s | %s |' % (d, m['breaks_property'], m['needs_to_manifest'].replace('|', '/'), m.get('verdict', 'not run yet'), '; '.join(m.get('caught_by', [])).replace('|', '/')))
caught = sum(1 for _, m in rows if m.get('verdict', '').startswith('caught'))
out += ['', '%d of %d seeded changes are reported as a VIOLATION by at least one check.' % (caught, len(rows)), '']
open(os.path.join(root, 'RESULTS.md'), 'w').write('\n'.join(out))
print('\n'.join(out[-3:]))
