#!/bin/bash
# seed_try_unit.sh <patch-file> <verus-unit...> : development aid - verify Verus units against a scratch copy of /repo + patch
PATCH=$1; shift
T=/tmp/tryu.$$
rm -rf $T; mkdir -p $T; rsync -a --exclude target --exclude .git /repo/ $T/
( cd $T && git init -q . && git apply $PATCH ) || { echo "patch does not apply"; rm -rf $T; exit 1; }
rm -rf $T/.git
cd /verif
for U in "$@"; do echo "--- unit $U"; VERIF_REPO=$T python3 engine/verus_unit.py $U 2>&1 | grep -E "^(ok|failed|undecided|UNDECIDED)|FAILED|^error" -A${CTX:-7} | grep -v "^trusted" | head -${HEADN:-40}; done
rm -rf $T
