//! Kani harnesses for src/cache/policy/cache_weight.rs (injected as child module `verif_kani`).
//! Hoare triples on the real functions: arbitrary pre-state satisfying INV_w with at most N
//! resident entries -> assume(requires) -> ONE call -> assert(ensures /\ INV_w /\ frame).
#![allow(dead_code, unused_imports)]
use std::cell::RefCell;
use std::cmp::Ordering;
use std::sync::Arc;

use dashmap::DashMap;
use parking_lot::RwLock;

use super::{CacheWeight, SampledKey, WeightedKey};
use crate::cache::key_description::KeyDescription;
use crate::cache::stats::ConcurrentStatsCounter;
use crate::cache::types::{KeyId, Weight};
use crate::verif_stubs::{verif_harness, InsertAt};

#[derive(Copy, Clone)]
pub(crate) struct Entry { pub id: KeyId, pub key: u64, pub hash: u64, pub weight: Weight }

/// The abstract view of a CacheWeight: (max, used, resident entries).  `present[i]` says whether
/// slot i of the pre-state holds `entries[i]`; every combination of occupied slots is covered, so
/// the stand-in map's iteration order (slot order) ranges over every order of the residents.
pub(crate) struct Model<const N: usize> { pub max: Weight, pub used: Weight, pub n: usize, pub present: [bool; N], pub entries: [Entry; N] }

impl<const N: usize> Model<N> {
    pub fn find(&self, id: KeyId) -> Option<Entry> {
        let mut i = 0;
        while i < N { if self.present[i] && self.entries[i].id == id { return Some(self.entries[i]); } i += 1; }
        None
    }
}

/// Arbitrary CacheWeight satisfying INV_w: every weight > 0, ids distinct, used = sum, 0 <= used <= max.
/// Built by struct literal (fields are private to the parent module, visible here).
/// The stand-in table has N + 1 slots: room for the residents and one incoming key.
pub(crate) fn arbitrary<const N: usize>() -> (CacheWeight<u64>, Model<N>) {
    arbitrary_with(crate::cache::stats::verif_kani::zeroed())
}
pub(crate) fn arbitrary_with<const N: usize>(stats: ConcurrentStatsCounter) -> (CacheWeight<u64>, Model<N>) {
    arbitrary_sharing(Arc::new(stats))
}
pub(crate) fn arbitrary_sharing<const N: usize>(stats: Arc<ConcurrentStatsCounter>) -> (CacheWeight<u64>, Model<N>) {
    let max: Weight = kani::any();
    kani::assume(max > 0);
    let mut entries = [Entry { id: 0, key: 0, hash: 0, weight: 0 }; N];
    let mut present = [false; N];
    let map: DashMap<KeyId, WeightedKey<u64>> = DashMap::with_capacity_and_shard_amount(N + 1, 2);
    let mut used: Weight = 0;
    let mut n = 0;
    let mut i = 0;
    while i < N {
        if kani::any() {
            let e = Entry { id: kani::any(), key: kani::any(), hash: kani::any(), weight: kani::any() };
            kani::assume(e.weight > 0);
            let mut j = 0;
            while j < i { kani::assume(!present[j] || entries[j].id != e.id); j += 1; }
            kani::assume(e.weight <= max - used);
            used += e.weight;
            entries[i] = e;
            present[i] = true;
            n += 1;
            map.verif_insert_at(i, e.id, WeightedKey::new(e.key, e.hash, e.weight));
        }
        i += 1;
    }
    let cw = CacheWeight { max_weight: max, weight_used: RwLock::new(used), key_weights: map, stats_counter: stats };
    (cw, Model { max, used, n, present, entries })
}

/// INV_w plus "the map holds exactly the entries of `m`, each with key, hash and weight intact"
pub(crate) fn check_matches<const N: usize>(cw: &CacheWeight<u64>, m: &Model<N>) {
    assert!(cw.get_max_weight() == m.max);
    assert!(cw.get_weight_used() == m.used);
    assert!(0 <= m.used && m.used <= m.max);
    assert!(cw.key_weights.len() == m.n);
    let mut sum: i128 = 0;
    let mut i = 0;
    while i < N {
        if !m.present[i] { i += 1; continue; }
        let e = m.entries[i];
        assert!(cw.contains(&e.id));
        assert!(cw.weight_of(&e.id) == Some(e.weight));
        {
            let r = cw.key_weights.get(&e.id).unwrap();
            assert!(r.key == e.key && r.key_hash == e.hash);
        }
        assert!(e.weight > 0);
        sum += e.weight as i128;
        i += 1;
    }
    assert!(sum == m.used as i128);
}

// ---------------------------------------------------------------------------------------------
// is_space_available_for: loop-free, full domain (K-complete)
// ---------------------------------------------------------------------------------------------
verif_harness! {
    #[kani::unwind(6)]
    fn space_available_full_domain() {
        let max: Weight = kani::any();
        let used: Weight = kani::any();
        let w: Weight = kani::any();
        kani::assume(max > 0 && 0 <= used && used <= max);
        let cw: CacheWeight<u64> = CacheWeight { max_weight: max, weight_used: RwLock::new(used), key_weights: DashMap::with_capacity_and_shard_amount(4, 2), stats_counter: Arc::new(crate::cache::stats::verif_kani::zeroed()) };
        let (available, ok) = cw.is_space_available_for(w);
        assert!(available == max - used);
        assert!(ok == (max - used >= w));
        assert!(cw.get_weight_used() == used && cw.get_max_weight() == max);
        kani::cover!(ok && w == max - used, "boundary: exactly fits");
        kani::cover!(!ok, "does not fit");
    }
}

fn t_add<const N: usize>() {
    let (cw, m) = arbitrary::<N>();
    let kd = KeyDescription::new(kani::any::<u64>(), kani::any(), kani::any(), kani::any());
    kani::assume(kd.weight > 0);
    kani::assume(m.find(kd.id).is_none());            // ids are fresh (IncreasingIdGenerator)
    kani::assume(kd.weight <= m.max - m.used);       // established by the caller's space check
    let added_before = cw.stats_counter.weight_added();
    let removed_before = cw.stats_counter.weight_removed();
    cw.add(&kd);
    // whole view: old entries untouched, the new one present with exactly the given fields
    assert!(cw.get_weight_used() == m.used + kd.weight);
    assert!(cw.get_weight_used() <= m.max);
    assert!(cw.key_weights.len() == m.n + 1);
    assert!(cw.weight_of(&kd.id) == Some(kd.weight));
    {
        let r = cw.key_weights.get(&kd.id).unwrap();
        assert!(r.key == kd.clone_key() && r.key_hash == kd.hash);
    }
    let mut i = 0;
    while i < N {
        if m.present[i] {
            let e = m.entries[i];
            assert!(cw.weight_of(&e.id) == Some(e.weight));
            let r = cw.key_weights.get(&e.id).unwrap();
            assert!(r.key == e.key && r.key_hash == e.hash);
        }
        i += 1;
    }
    assert!(cw.stats_counter.weight_added() == added_before.wrapping_add(kd.weight as u64));
    assert!(cw.stats_counter.weight_removed() == removed_before);
    kani::cover!(m.n == N, "pre-state with N resident entries");
    kani::cover!(m.used + kd.weight == m.max, "add fills the cache exactly");
}

fn t_delete<const N: usize>() {
    let (cw, m) = arbitrary::<N>();
    let id: KeyId = kani::any();
    let calls: RefCell<(u32, u64)> = RefCell::new((0, 0));
    let hook = |key: u64| { let mut c = calls.borrow_mut(); c.0 += 1; c.1 = key; };
    let added_before = cw.stats_counter.weight_added();
    let removed_before = cw.stats_counter.weight_removed();
    cw.delete(&id, &hook);
    match m.find(id) {
        Some(e) => {
            assert!(cw.get_weight_used() == m.used - e.weight);
            assert!(cw.key_weights.len() == m.n - 1);
            assert!(!cw.contains(&id));
            assert!(*calls.borrow() == (1, e.key));         // hook: exactly once, with that id's key
            assert!(cw.stats_counter.weight_removed() == removed_before.wrapping_add(e.weight as u64));
        }
        None => {
            assert!(cw.get_weight_used() == m.used);
            assert!(cw.key_weights.len() == m.n);
            assert!(calls.borrow().0 == 0);                    // unknown id: identity, hook never called
            assert!(cw.stats_counter.weight_removed() == removed_before);
        }
    }
    assert!(0 <= cw.get_weight_used() && cw.get_weight_used() <= m.max);
    assert!(cw.stats_counter.weight_added() == added_before);
    // frame: every other entry intact
    let mut i = 0;
    while i < N {
        let e = m.entries[i];
        if m.present[i] && e.id != id {
            assert!(cw.weight_of(&e.id) == Some(e.weight));
            let r = cw.key_weights.get(&e.id).unwrap();
            assert!(r.key == e.key && r.key_hash == e.hash);
        }
        i += 1;
    }
    kani::cover!(m.find(id).is_some() && m.n == N, "delete of a resident id, full pre-state");
    kani::cover!(m.find(id).is_none(), "delete of an unknown id");
}

/// update(id, w). The known-finding region R (F-C01-update) == growth larger than the free space: inside R only the BOUND
/// `used <= max` is excused; the accounting (total moves by exactly the delta, the id carries the new weight, nobody else moves,
/// the statistics) is required everywhere. Excluded altogether: R' == the i64 addition itself overflows (the F-C01-update /
/// C17 part of the finding: debug builds panic there).
fn t_update_outside_region<const N: usize>() {
    let (cw, m) = arbitrary::<N>();
    let id: KeyId = kani::any();
    let w: Weight = kani::any();
    kani::assume(w > 0);
    let mut in_region = false;
    if let Some(e) = m.find(id) {
        kani::assume((m.used as i128) + (w as i128) - (e.weight as i128) <= i64::MAX as i128);
        kani::assume((w as i128) - (e.weight as i128) >= i64::MIN as i128);
        in_region = (w as i128) - (e.weight as i128) > (m.max as i128) - (m.used as i128);
    }
    let updated_before = cw.stats_counter.keys_updated();
    let added_before = cw.stats_counter.weight_added();
    let removed_before = cw.stats_counter.weight_removed();
    let r = cw.update(&id, w);
    match m.find(id) {
        Some(e) => {
            assert!(r);
            assert!(cw.get_weight_used() == m.used - e.weight + w);
            assert!(cw.weight_of(&id) == Some(w));
            assert!(cw.stats_counter.keys_updated() == updated_before + 1);
            // C16: weight_added - weight_removed tracks the total modulo 2^64
            assert!(cw.stats_counter.weight_added() == added_before.wrapping_add((w - e.weight) as u64));
            let g = cw.key_weights.get(&id).unwrap();
            assert!(g.key == e.key && g.key_hash == e.hash);
        }
        None => {
            assert!(!r);
            assert!(cw.get_weight_used() == m.used);
            assert!(cw.stats_counter.keys_updated() == updated_before);
            assert!(cw.stats_counter.weight_added() == added_before);
        }
    }
    assert!(cw.stats_counter.weight_removed() == removed_before);
    assert!(0 <= cw.get_weight_used());
    if !in_region { assert!(cw.get_weight_used() <= m.max); }
    assert!(cw.key_weights.len() == m.n);
    let mut i = 0;
    while i < N {
        let e = m.entries[i];
        if m.present[i] && e.id != id {
            assert!(cw.weight_of(&e.id) == Some(e.weight));
            let g = cw.key_weights.get(&e.id).unwrap();
            assert!(g.key == e.key && g.key_hash == e.hash);
        }
        i += 1;
    }
    kani::cover!(m.find(id).is_some() && m.n == N, "update of a resident id");
    kani::cover!(m.find(id).is_some() && w < m.find(id).unwrap().weight, "weight decrease");
    kani::cover!(m.find(id).is_some() && w > m.find(id).unwrap().weight, "weight increase");
    kani::cover!(in_region, "growth beyond the free space (accounting still required)");
}

/// The region itself: is there an input in R for which the bound is breached (or the addition
/// overflows)?  Reported as KNOWN-FINDING when this cover is satisfiable, silent when not.
fn t_update_region_cover<const N: usize>() {
    let (cw, m) = arbitrary::<N>();
    let id: KeyId = kani::any();
    let w: Weight = kani::any();
    kani::assume(w > 0);
    let e = m.find(id);
    kani::assume(e.is_some());
    let e = e.unwrap();
    kani::assume(w - e.weight > m.max - m.used);           // inside R
    kani::assume((m.used as i128) + (w as i128) - (e.weight as i128) <= i64::MAX as i128); // no overflow: isolate the bound breach
    cw.update(&id, w);
    kani::cover!(cw.get_weight_used() > m.max, "F-C01-update: total weight used exceeds the cache weight after update");
}

fn t_clear<const N: usize>() {
    let (cw, m) = arbitrary::<N>();
    cw.clear();
    assert!(cw.get_weight_used() == 0);
    assert!(cw.key_weights.len() == 0);
    assert!(cw.get_max_weight() == m.max);
}

fn t_reads<const N: usize>() {
    let (cw, m) = arbitrary::<N>();
    let id: KeyId = kani::any();
    let c = cw.contains(&id);
    let w = cw.weight_of(&id);
    assert!(c == m.find(id).is_some());
    assert!(w == m.find(id).map(|e| e.weight));
    check_matches(&cw, &m);       // reads change nothing
}

verif_harness! { #[kani::unwind(6)] fn add_n2() { t_add::<2>() } }
verif_harness! { #[kani::unwind(6)] fn delete_n2() { t_delete::<2>() } }
verif_harness! { #[kani::unwind(6)] fn update_outside_region_n2() { t_update_outside_region::<2>() } }
verif_harness! { #[kani::unwind(6)] fn update_region_cover_n2() { t_update_region_cover::<2>() } }
verif_harness! { #[kani::unwind(6)] fn clear_n2() { t_clear::<2>() } }
verif_harness! { #[kani::unwind(6)] fn reads_n2() { t_reads::<2>() } }
verif_harness! { #[kani::unwind(6)] fn add_n3() { t_add::<3>() } }
verif_harness! { #[kani::unwind(6)] fn delete_n3() { t_delete::<3>() } }
verif_harness! { #[kani::unwind(6)] fn update_outside_region_n3() { t_update_outside_region::<3>() } }

// ---------------------------------------------------------------------------------------------
// update_weight_stats: loop-free, all positive i64 pairs (C16)
// ---------------------------------------------------------------------------------------------
verif_harness! {
    #[kani::unwind(6)]
    fn update_weight_stats_full_domain() {
        let new_w: Weight = kani::any();
        let old_w: Weight = kani::any();
        kani::assume(new_w > 0 && old_w > 0);
        let cw: CacheWeight<u64> = CacheWeight { max_weight: 1, weight_used: RwLock::new(0), key_weights: DashMap::with_capacity_and_shard_amount(4, 2), stats_counter: Arc::new(crate::cache::stats::verif_kani::zeroed()) };
        cw.update_weight_stats(new_w, old_w);
        assert!(cw.stats_counter.weight_added() == (new_w - old_w) as u64);
        assert!(cw.stats_counter.weight_removed() == 0);
        kani::cover!(new_w == old_w, "same weight");
        kani::cover!(new_w < old_w, "decrease");
    }
}

// ---------------------------------------------------------------------------------------------
// SampledKey ordering: all (u8, i64) pairs, loop-free (K-complete) (C06)
// "greater" = popped first from the max-heap = lower estimated frequency; ties: heavier first
// ---------------------------------------------------------------------------------------------
fn any_sampled() -> SampledKey {
    SampledKey { id: kani::any(), weight: kani::any(), estimated_frequency: kani::any() }
}
fn spec_cmp(a: &SampledKey, b: &SampledKey) -> Ordering {
    if a.estimated_frequency < b.estimated_frequency { Ordering::Greater }
    else if a.estimated_frequency > b.estimated_frequency { Ordering::Less }
    else if a.weight > b.weight { Ordering::Greater }
    else if a.weight < b.weight { Ordering::Less }
    else { Ordering::Equal }
}
#[kani::proof]
fn sampled_key_order_matches_spec() {
    let a = any_sampled();
    let b = any_sampled();
    assert!(a.cmp(&b) == spec_cmp(&a, &b));
    assert!(a.partial_cmp(&b) == Some(spec_cmp(&a, &b)));
    assert!(a.cmp(&b) == b.cmp(&a).reverse());                 // antisymmetric
    assert!((a == b) == (a.id == b.id));
}
#[kani::proof]
fn sampled_key_order_transitive() {
    let a = any_sampled();
    let b = any_sampled();
    let c = any_sampled();
    if a.cmp(&b) != Ordering::Less && b.cmp(&c) != Ordering::Less { assert!(a.cmp(&c) != Ordering::Less); }
}


// ---------------------------------------------------------------------------------------------
// The eviction sampler against the contract the Verus unit `policy` ASSUMES for it (C06).
// std BinaryHeap / HashSet are bound to the stand-ins of crate::verif_stubs (instrumentation X3).
// ---------------------------------------------------------------------------------------------
fn est_of(hash: u64) -> u8 { (hash % 17) as u8 }       // an arbitrary estimate function of the hash (hashes are symbolic)

/// the sample as a list of its SampledKeys (stand-in heap slots)
#[cfg(kani)]
fn sample_items<'a, F: Fn(u64) -> u8>(s: &super::FrequencyCounterBasedMinHeapSamples<'a, u64, F>) -> [Option<SampledKey>; 6] { *s.sample.verif_slots() }

#[cfg(kani)]
fn check_sample_describes<'a, const N: usize, F: Fn(u64) -> u8>(s: &super::FrequencyCounterBasedMinHeapSamples<'a, u64, F>, cw: &CacheWeight<u64>, limit: usize) {
    let items = sample_items(s);
    let mut count = 0;
    let mut i = 0;
    while i < 6 {
        if let Some(k) = items[i] {
            count += 1;
            // describes a resident: its charged weight, the estimate of ITS hash
            let r = cw.key_weights.get(&k.id);
            assert!(r.is_some());
            let r = r.unwrap();
            assert!(k.weight == r.weight && k.estimated_frequency == est_of(r.key_hash));
            assert!(s.current_sample_key_ids.contains(&k.id));
            // ids are unique in the sample
            let mut j = 0;
            while j < i { if let Some(o) = items[j] { assert!(o.id != k.id); } j += 1; }
        }
        i += 1;
    }
    assert!(count == s.size() && count <= limit);
    assert!(s.current_sample_key_ids.len() == count);
}

#[cfg(kani)]
fn t_sampler_initial<const N: usize>() {
    let (cw, m) = arbitrary::<N>();
    let size: usize = kani::any();
    kani::assume(size == 1 || size == 2 || size == 5);
    let s = cw.sample(size, est_of);
    check_sample_describes::<N, _>(&s, &cw, size);
    assert!(s.size() == if m.n < size { m.n } else { size });       // min(size, residents): "samples smaller than five"
    check_matches(&cw, &m);                                          // sampling changes nothing
    kani::cover!(m.n > size, "more residents than the sample size");
    kani::cover!(m.n < size && m.n > 0, "sample smaller than its size");
}

#[cfg(kani)]
fn t_sampler_pop<const N: usize>() {
    let (cw, m) = arbitrary::<N>();
    let mut s = cw.sample(5, est_of);
    let before = sample_items(&s);
    let r = s.min_frequency_key();
    assert!(r.is_some() == (m.n > 0));
    if let Some(k) = r {
        // it was in the sample, and no sampled key comes before it: lowest estimate first, ties: heaviest first
        let mut found = false;
        let mut i = 0;
        while i < 6 {
            if let Some(x) = before[i] {
                if x.id == k.id { found = true; assert!(x.weight == k.weight && x.estimated_frequency == k.estimated_frequency); }
                assert!(k.estimated_frequency < x.estimated_frequency || (k.estimated_frequency == x.estimated_frequency && k.weight >= x.weight));
            }
            i += 1;
        }
        assert!(found);
        // and it left the sample (heap and id set)
        assert!(!s.current_sample_key_ids.contains(&k.id));
        assert!(s.size() == m.n - 1);
        let after = sample_items(&s);
        let mut i = 0;
        while i < 6 { if let Some(x) = after[i] { assert!(x.id != k.id); } i += 1; }
    }
    check_sample_describes::<N, _>(&s, &cw, 5);
    check_matches(&cw, &m);
}

#[cfg(kani)]
fn t_sampler_fill_in<const N: usize>() {
    // sample size 1 over up to N residents: pop the sampled key, evict it, refill from the current residents
    let (cw, m) = arbitrary::<N>();
    let mut s = cw.sample(1, est_of);
    let r = s.min_frequency_key();
    if let Some(k) = r {
        if kani::any() { cw.delete(&k.id, &|_key: u64| {}); }        // evicted, or (vanished concurrently / kept) not
        let still_there = cw.contains(&k.id);
        let filled = s.maybe_fill_in();
        check_sample_describes::<N, _>(&s, &cw, 1);
        // fills in exactly when some resident is not in the sample
        assert!(filled == (s.size() == 1));
        assert!((s.size() == 1) == (cw.key_weights.len() > 0));
        let _ = still_there;
    } else {
        assert!(m.n == 0);
        assert!(!s.maybe_fill_in());
        assert!(s.size() == 0);
    }
    kani::cover!(m.n == N, "full pre-state");
}

#[cfg(kani)]
fn t_sampler_no_duplicate_fill<const N: usize>() {
    // a sample that already holds every resident is not refilled and never holds an id twice
    let (cw, m) = arbitrary::<N>();
    let mut s = cw.sample(5, est_of);
    let filled = s.maybe_fill_in();
    assert!(!filled && s.size() == m.n);
    check_sample_describes::<N, _>(&s, &cw, 5);
}

verif_harness! { #[kani::unwind(7)] fn sampler_initial_n3() { t_sampler_initial::<3>() } }
verif_harness! { #[kani::unwind(7)] fn sampler_pop_n2() { t_sampler_pop::<2>() } }
verif_harness! { #[kani::unwind(7)] fn sampler_pop_n3() { t_sampler_pop::<3>() } }
verif_harness! { #[kani::unwind(7)] fn sampler_fill_in_n2() { t_sampler_fill_in::<2>() } }
verif_harness! { #[kani::unwind(7)] fn sampler_fill_in_n3() { t_sampler_fill_in::<3>() } }
verif_harness! { #[kani::unwind(7)] fn sampler_no_duplicate_fill_n2() { t_sampler_no_duplicate_fill::<2>() } }
