//! Kani twins for src/cache/lfu/frequency_counter.rs (child module `verif_kani`) - C14, C17.
//! The unbounded proofs are the Verus unit `sketch`; these harnesses (a) check the two contracts
//! that unit ASSUMES (`matrix`, and `new` producing a well-formed sketch), for small sizes, and
//! (b) give concrete counterexamples for replay when a Row contract breaks.
#![allow(dead_code, unused_imports)]
use super::{FrequencyCounter, Row, ROWS};

// all 256 byte values x both nibbles, loop-free: complete
#[kani::proof]
fn row_increment_at_all_bytes() {
    let (b0, b1): (u8, u8) = (kani::any(), kani::any());
    let mut row = Row(vec![b0, b1]);
    let p: u64 = kani::any();
    kani::assume(p < 4);
    let before = [b0 & 0x0f, b0 >> 4, b1 & 0x0f, b1 >> 4];
    row.increment_at(p);
    let after = [row.0[0] & 0x0f, row.0[0] >> 4, row.0[1] & 0x0f, row.0[1] >> 4];
    let mut i = 0;
    while i < 4 {
        if i as u64 == p { assert!(after[i] == if before[i] < 15 { before[i] + 1 } else { 15 }); }   // saturates, never wraps
        else { assert!(after[i] == before[i]); }                                                      // never disturbs another counter
        assert!(row.get_at(i as u64) == after[i]);
        i += 1;
    }
}

#[kani::proof]
#[kani::unwind(4)]
fn row_half_counters_all_bytes() {
    let (b0, b1): (u8, u8) = (kani::any(), kani::any());
    let mut row = Row(vec![b0, b1]);
    row.half_counters();
    assert!(row.0[0] & 0x0f == (b0 & 0x0f) / 2 && row.0[0] >> 4 == (b0 >> 4) / 2);
    assert!(row.0[1] & 0x0f == (b1 & 0x0f) / 2 && row.0[1] >> 4 == (b1 >> 4) / 2);
    row.clear();
    assert!(row.0[0] == 0 && row.0[1] == 0);
}

// next_power_2 for every u64 in (0, 2^63]
#[kani::proof]
fn next_power_2_all_inputs() {
    let c: u64 = kani::any();
    kani::assume(c > 0 && c <= 1u64 << 63);
    let r = FrequencyCounter::next_power_2(c);
    assert!(r.is_power_of_two() && r >= c && (r == 1 || r / 2 < c));
}

// ASSUMED in the Verus unit: matrix(total) = four zeroed rows of total/2 bytes.  bounded: total <= 8
#[kani::proof]
#[kani::unwind(7)]
fn matrix_contract_small() {
    let total: u64 = kani::any();
    kani::assume(total == 2 || total == 4 || total == 8);
    let m = FrequencyCounter::matrix(total);
    let mut r = 0;
    while r < ROWS {
        assert!(m[r].0.len() as u64 == total / 2);
        let mut i = 0;
        while i < m[r].0.len() { assert!(m[r].0[i] == 0); i += 1; }
        r += 1;
    }
}

/// every counter count the builder accepts gives a usable sketch: new(c) followed by increment / estimate
/// never panics, for the smallest sizes (bounded: c <= 3; the Verus unit covers every size).
/// `seeds()` uses the thread-local RNG, which Kani cannot run: stubbed to arbitrary seeds.
fn any_seeds() -> [u64; ROWS] { kani::any() }
#[kani::proof]
#[kani::unwind(7)]
#[kani::stub(FrequencyCounter::seeds, any_seeds)]
fn smallest_counters_are_usable() {
    let c: u64 = kani::any();
    kani::assume(c >= 1 && c <= 3);
    let mut f = FrequencyCounter::new(c);
    let h: u64 = kani::any();
    f.increment(h);
    assert!(f.estimate(h) == 1);
    f.reset();
    assert!(f.estimate(h) == 0);
    kani::cover!(c == 1, "counters = 1");
}

/// a well-formed sketch with total_counters = 2 (one byte per row): arbitrary counters and seeds
pub(crate) fn arbitrary_sketch_2() -> FrequencyCounter {
    let b: [u8; 4] = kani::any();
    FrequencyCounter { matrix: [Row(vec![b[0]]), Row(vec![b[1]]), Row(vec![b[2]]), Row(vec![b[3]])], seeds: kani::any(), total_counters: 2 }
}

/// a well-formed sketch with total_counters = 4 whose estimate for a hash h is an ARBITRARY value chosen
/// per class h % 4: row 0 holds four symbolic counters, rows 1-3 are saturated, seeds are zero.
/// (Cheaper for CBMC than four symbolic rows and seeds, same freedom for the admission logic.)
pub(crate) fn sketch_with_arbitrary_classes() -> FrequencyCounter {
    let b: [u8; 2] = kani::any();
    FrequencyCounter { matrix: [Row(vec![b[0], b[1]]), Row(vec![0xff, 0xff]), Row(vec![0xff, 0xff]), Row(vec![0xff, 0xff])], seeds: [0; 4], total_counters: 4 }
}
