//! Kani harness for src/cache/unique_id/increasing_id_generator.rs - C05/C10 (ids are never reused).
#![allow(dead_code, unused_imports)]
use std::sync::atomic::AtomicU64;

use super::IncreasingIdGenerator;

#[kani::proof]
fn ids_strictly_increase() {
    let start: u64 = kani::any();
    kani::assume(start < u64::MAX - 1);
    let g = IncreasingIdGenerator { id: AtomicU64::new(start) };
    let a = g.next();
    let b = g.next();
    assert!(a == start && b == start + 1 && a < b);
    let fresh = IncreasingIdGenerator::new();
    assert!(fresh.next() == 1);
}
