//! Kani harness for src/cache/unique_id/increasing_id_generator.rs - C05/C10 (ids are never reused).
#![allow(dead_code, unused_imports, static_mut_refs)]
use std::sync::atomic::AtomicU64;

use super::IncreasingIdGenerator;

#[kani::proof]
fn ids_strictly_increase() {
    let start: u64 = kani::any();
    kani::assume(start < u64::MAX - 1);
    let g = IncreasingIdGenerator { id: AtomicU64::new(start) };
    let a = g.next();
    let b = g.next();
    assert!(a == start && b == start + 1 && a < b);
    let fresh = IncreasingIdGenerator::new();
    assert!(fresh.next() == 1);
}

// ---- `next` is called by client threads (CacheD::key_description), so two calls can overlap. Instrumentation X2c puts an
// interference point before the first and after every top-level statement of `next`; at ONE of them (chosen by Kani) another
// thread's complete call of `next` lands. BOUNDED: one interfering call; every atomic operation is one step.
static mut INTERFERE_AT: usize = usize::MAX;
static mut IN_OTHER: bool = false;
static mut OTHER_RAN: bool = false;
static mut OTHER_ID: u64 = 0;

pub(crate) fn next_point(generator: &IncreasingIdGenerator, k: usize) {
    unsafe {
        if IN_OTHER || OTHER_RAN || k != INTERFERE_AT {
            return;
        }
        IN_OTHER = true;
        OTHER_ID = generator.next();
        IN_OTHER = false;
        OTHER_RAN = true;
    }
}

#[kani::proof]
fn overlapping_calls_get_distinct_ids() {
    let start: u64 = kani::any();
    kani::assume(start < u64::MAX - 3);
    let g = IncreasingIdGenerator { id: AtomicU64::new(start) };
    let at: usize = kani::any();
    unsafe { INTERFERE_AT = at; }
    let mine = g.next();
    let (other_ran, other) = unsafe { (OTHER_RAN, OTHER_ID) };
    if at == 0 {
        assert!(other_ran);          // the point before the first statement always exists (not vacuous)
    }
    if other_ran {
        assert!(mine != other);      // two keys never share an id
        assert!(mine >= start && other >= start);
    }
    unsafe { INTERFERE_AT = usize::MAX; }
    let later = g.next();
    assert!(later > mine);
    if other_ran {
        assert!(later > other);      // and no later key gets either of them again
    }
}
