//! Kani harnesses for src/cache/expiration/mod.rs (child module `verif_kani`) - C10, C17.
//! Real TTLTicker functions and the X1-extracted sweep step, with the hashbrown stand-in.
//! INV_ttl: every entry (id -> e) sits in shard  secs_since_epoch(e) mod shards.
#![allow(dead_code, unused_imports)]
use std::cell::RefCell;
use std::sync::atomic::AtomicBool;
use std::sync::Arc;
use std::time::{Duration, SystemTime, UNIX_EPOCH};

use hashbrown::HashMap;
use parking_lot::RwLock;

use super::TTLTicker;
use crate::cache::clock::verif_kani::{any_time, any_time_with_secs, boxed};
use crate::cache::types::{ExpireAfter, KeyId};
use crate::verif_stubs::{verif_harness, MapInsertAt, StackArc, StackArcSlice};

#[derive(Copy, Clone)]
pub(crate) struct T { pub id: KeyId, pub e: SystemTime, pub secs: u64 }
pub(crate) struct Model<const N: usize> { pub present: [bool; N], pub t: [T; N] }
impl<const N: usize> Model<N> {
    pub fn find(&self, id: KeyId) -> Option<T> {
        let mut i = 0;
        while i < N { if self.present[i] && self.t[i].id == id { return Some(self.t[i]); } i += 1; }
        None
    }
    pub fn count(&self) -> usize { let (mut i, mut n) = (0, 0); while i < N { if self.present[i] { n += 1; } i += 1; } n }
}
pub(crate) fn spec_shard(secs: u64, shards: usize) -> usize { (secs as usize) % shards }
fn any_t(id: KeyId) -> T { let (e, secs) = any_time_with_secs(); T { id, e, secs } }

/// shard maps for an arbitrary ticker state with at most N entries satisfying INV_ttl
pub(crate) fn arbitrary_maps<const N: usize, const S: usize>() -> ([RwLock<HashMap<KeyId, ExpireAfter>>; S], Model<N>) {
    let mut maps: [HashMap<KeyId, ExpireAfter>; S] = std::array::from_fn(|_| HashMap::new());
    let mut t = [T { id: 0, e: UNIX_EPOCH, secs: 0 }; N];
    let mut present = [false; N];
    let mut i = 0;
    while i < N {
        if kani::any() {
            let x = any_t(kani::any());
            let mut j = 0;
            while j < i { kani::assume(!present[j] || t[j].id != x.id); j += 1; }
            t[i] = x;
            present[i] = true;
            let sh = spec_shard(x.secs, S);
            let mut c = 0;
            while c < S { if sh == c { maps[c].verif_insert_at(i, x.id, x.e); } c += 1; }   // constant indices only
        }
        i += 1;
    }
    (maps.map(RwLock::new), Model { present, t })
}

/// where is `id`? (shard, expiry) - walks the shards with constant indices (a symbolic index into the
/// shard slice is what makes CBMC slow)
fn locate<const S: usize>(ticker: &Arc<TTLTicker>, id: KeyId) -> Option<(usize, SystemTime)> {
    let mut found = None;
    let mut count = 0;
    let mut c = 0;
    while c < S {
        if let Some(e) = ticker.shards[c].read().get(&id).copied() { found = Some((c, e)); count += 1; }
        c += 1;
    }
    assert!(count <= 1);                                         // an id is held at most once
    found
}
fn total<const S: usize>(ticker: &Arc<TTLTicker>) -> usize {
    let mut total = 0;
    let mut c = 0;
    while c < S { total += ticker.shards[c].read().len(); c += 1; }
    total
}

/// whole-view check: the ticker holds exactly the entries of `m`, each in its INV_ttl shard
fn holds_exactly<const N: usize, const S: usize>(ticker: &Arc<TTLTicker>, m: &Model<N>) {
    assert!(total::<S>(ticker) == m.count());
    let mut i = 0;
    while i < N {
        if m.present[i] {
            let x = m.t[i];
            assert!(locate::<S>(ticker, x.id) == Some((spec_shard(x.secs, S), x.e)));
        }
        i += 1;
    }
}

macro_rules! with_ticker {
    ($n:expr, $s:expr, |$ticker:ident, $m:ident| $body:block) => {{
        let (maps, $m) = arbitrary_maps::<$n, $s>();
        let slice = StackArcSlice::new(maps);
        let shards = slice.arc();
        let holder = StackArc::new(TTLTicker { shards: Arc::clone(&shards), keep_running: Arc::new(AtomicBool::new(true)) });
        let $ticker = holder.arc();
        let $ticker: &Arc<TTLTicker> = &$ticker;
        $body
    }};
}

fn t_shard_index<const S: usize>() {
    with_ticker!(1, S, |ticker, _m| {
        let (t, secs) = any_time_with_secs();
        let i = ticker.shard_index(&t);
        assert!(i < S && i == spec_shard(secs, S));
        assert!(t.duration_since(UNIX_EPOCH).unwrap().as_secs() == secs);
    })
}

fn t_put<const N: usize, const S: usize>() {
    with_ticker!(N, S, |ticker, m| {
        let p = any_t(kani::any());
        let (id, e) = (p.id, p.e);
        kani::assume(m.find(id).is_none());                  // ids are never reused
        ticker.put(id, e);
        assert!(ticker.get(&id, &e) == Some(e));
        assert!(locate::<S>(ticker, id) == Some((spec_shard(p.secs, S), e)));     // INV_ttl for the new entry
        holds_exactly_plus::<N, S>(ticker, &m, Some(p), None);
    })
}

/// the ticker holds the entries of m except `minus`, plus `plus`
fn holds_exactly_plus<const N: usize, const S: usize>(ticker: &Arc<TTLTicker>, m: &Model<N>, plus: Option<T>, minus: Option<KeyId>) {
    let total = total::<S>(ticker);
    let mut expected = if plus.is_some() { 1 } else { 0 };
    let mut i = 0;
    while i < N {
        if m.present[i] && Some(m.t[i].id) != minus {
            let x = m.t[i];
            expected += 1;
            assert!(locate::<S>(ticker, x.id) == Some((spec_shard(x.secs, S), x.e)));
        }
        i += 1;
    }
    if let Some(p) = plus { assert!(locate::<S>(ticker, p.id) == Some((spec_shard(p.secs, S), p.e))); }
    assert!(total == expected);
}

fn t_delete<const N: usize, const S: usize>() {
    with_ticker!(N, S, |ticker, m| {
        let id: KeyId = kani::any();
        let x = m.find(id);
        kani::assume(x.is_some());
        let x = x.unwrap();
        ticker.delete(&id, &x.e);                               // callers pass the entry's current expiry
        assert!(ticker.get(&id, &x.e).is_none());
        holds_exactly_plus::<N, S>(ticker, &m, None, Some(id));
    })
}

fn t_delete_unknown<const N: usize, const S: usize>() {
    with_ticker!(N, S, |ticker, m| {
        let id: KeyId = kani::any();
        kani::assume(m.find(id).is_none());
        ticker.delete(&id, &any_time());
        holds_exactly::<N, S>(ticker, &m);
    })
}

fn t_update<const N: usize, const S: usize>() {
    with_ticker!(N, S, |ticker, m| {
        let id: KeyId = kani::any();
        let x = m.find(id);
        kani::assume(x.is_some());
        let x = x.unwrap();
        let p = any_t(id);
        let new = p.e;
        ticker.update(id, &x.e, new);
        assert!(ticker.get(&id, &new) == Some(new));
        // the id is held once, under its new expiry only
        holds_exactly_plus::<N, S>(ticker, &m, Some(p), Some(id));
        kani::cover!(spec_shard(x.secs, S) != spec_shard(p.secs, S), "expiry moves to another shard");
        kani::cover!(spec_shard(x.secs, S) == spec_shard(p.secs, S), "expiry stays in the shard");
    })
}

fn t_get<const N: usize, const S: usize>() {
    with_ticker!(N, S, |ticker, m| {
        let id: KeyId = kani::any();
        match m.find(id) {
            Some(x) => assert!(ticker.get(&id, &x.e) == Some(x.e)),
            None => assert!(ticker.get(&id, &any_time()).is_none()),
        }
        holds_exactly::<N, S>(ticker, &m);
    })
}

fn t_clear<const N: usize, const S: usize>() {
    with_ticker!(N, S, |ticker, m| {
        ticker.clear();
        let mut s = 0;
        while s < S { assert!(ticker.shards[s].read().len() == 0); s += 1; }
        let _ = m;
    })
}

/// One sweep at a symbolic instant `now` (X1-extracted body of the sweeper loop):
/// the evict hook is called exactly once for each entry of shard secs(now) mod S whose expiry has
/// passed (now > e); exactly those entries are removed; nothing else moves.
fn t_sweep<const N: usize, const S: usize>() {
    let (maps, m) = arbitrary_maps::<N, S>();
    let slice = StackArcSlice::new(maps);
    let shards = slice.arc();
    let holder = StackArc::new(TTLTicker { shards: Arc::clone(&shards), keep_running: Arc::new(AtomicBool::new(true)) });
    let ticker = holder.arc();
    let (now, now_secs) = any_time_with_secs();
    // the hook records the ids it was called with (static because the real signature wants 'static)
    static mut CALLS: [(u32, KeyId); 4] = [(0, 0); 4];
    static mut NCALLS: usize = 0;
    let hook = |id: &KeyId| unsafe { CALLS[NCALLS] = (1, *id); NCALLS += 1; };
    TTLTicker::verif_sweep_step(Arc::clone(&ticker), boxed(now), hook, Arc::new(AtomicBool::new(true)), crossbeam_channel::never(), unsafe { std::mem::MaybeUninit::<std::time::Instant>::zeroed().assume_init() });
    let ticker: &Arc<TTLTicker> = &ticker;
    let mut expected_calls = 0;
    let total = total::<S>(ticker);
    let mut remaining = 0;
    let mut i = 0;
    while i < N {
        if m.present[i] {
            let x = m.t[i];
            let due = spec_shard(x.secs, S) == spec_shard(now_secs, S) && now > x.e;
            let here = locate::<S>(ticker, x.id);
            if due {
                expected_calls += 1;
                assert!(here.is_none());
                let mut c = 0;
                let mut k = 0;
                unsafe { while k < NCALLS { if CALLS[k].1 == x.id { c += 1; } k += 1; } }
                assert!(c == 1);                                  // hook called exactly once for it
            } else {
                remaining += 1;
                assert!(here == Some((spec_shard(x.secs, S), x.e)));   // never removes a key whose expiry has not passed
            }
        }
        i += 1;
    }
    assert!(unsafe { NCALLS } == expected_calls);
    assert!(total == remaining);
    kani::cover!(expected_calls == N, "every resident entry is due");
    kani::cover!(expected_calls == 0 && m.count() == N, "nothing is due");
}

verif_harness! { fn shard_index_s2() { t_shard_index::<2>() } }
verif_harness! { fn shard_index_s4() { t_shard_index::<4>() } }
verif_harness! { fn put_n2_s2() { t_put::<2, 2>() } }
verif_harness! { fn delete_n2_s2() { t_delete::<2, 2>() } }
verif_harness! { fn delete_unknown_n2_s2() { t_delete_unknown::<2, 2>() } }
verif_harness! { fn update_n2_s2() { t_update::<2, 2>() } }
verif_harness! { fn get_n2_s2() { t_get::<2, 2>() } }
verif_harness! { fn clear_n2_s2() { t_clear::<2, 2>() } }
verif_harness! { fn sweep_n2_s2() { t_sweep::<2, 2>() } }
verif_harness! { fn put_n3_s4() { t_put::<3, 4>() } }
verif_harness! { fn update_n3_s4() { t_update::<3, 4>() } }
verif_harness! { fn sweep_n3_s4() { t_sweep::<3, 4>() } }

// region F-C17-pre-epoch: a client clock before the Unix epoch makes shard_index panic
// ("Time went backwards"); the clock >= epoch precondition is taken from that message.
