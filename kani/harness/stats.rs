//! Kani harnesses for src/cache/stats/mod.rs (child module `verif_kani`) - C16.
#![allow(dead_code, unused_imports)]
use std::sync::atomic::{AtomicU64, Ordering};

use crossbeam_utils::CachePadded;

use super::{ConcurrentStatsCounter, Counter, StatsType, TOTAL_STATS};

fn c(v: u64) -> Counter { Counter(CachePadded::new(AtomicU64::new(v))) }

/// counters with the given start values, built by struct literal (no iterator/collect loop)
pub(crate) fn with_values(v: [u64; 10]) -> ConcurrentStatsCounter {
    ConcurrentStatsCounter { entries: [c(v[0]), c(v[1]), c(v[2]), c(v[3]), c(v[4]), c(v[5]), c(v[6]), c(v[7]), c(v[8]), c(v[9])] }
}
pub(crate) fn zeroed() -> ConcurrentStatsCounter { with_values([0; 10]) }
pub(crate) fn arbitrary() -> (ConcurrentStatsCounter, [u64; 10]) {
    let v: [u64; 10] = kani::any();
    (with_values(v), v)
}
pub(crate) fn snapshot(s: &ConcurrentStatsCounter) -> [u64; 10] {
    [s.hits(), s.misses(), s.keys_added(), s.keys_deleted(), s.keys_updated(), s.keys_rejected(),
     s.weight_added(), s.weight_removed(), s.access_added(), s.access_dropped()]
}
pub(crate) fn same(a: [u64; 10], b: [u64; 10]) -> bool {
    a[0] == b[0] && a[1] == b[1] && a[2] == b[2] && a[3] == b[3] && a[4] == b[4]
        && a[5] == b[5] && a[6] == b[6] && a[7] == b[7] && a[8] == b[8] && a[9] == b[9]
}
/// expected: `before` with slot `idx` advanced by `delta` (wrapping, as AtomicU64::fetch_add does)
pub(crate) fn bumped(before: [u64; 10], idx: usize, delta: u64) -> [u64; 10] {
    let mut e = before;
    e[idx] = e[idx].wrapping_add(delta);
    e
}

// Each named increment bumps exactly its own counter by the given amount; the other nine are
// unchanged (10 x 10 frame), from arbitrary start values and for every delta.
#[kani::proof]
fn each_increment_touches_only_its_counter() {
    let (s, before) = arbitrary();
    let delta: u64 = kani::any();
    let which: u8 = kani::any();
    kani::assume(which < 10);
    let (idx, d) = match which {
        0 => { s.found_a_hit(); (0usize, 1u64) }
        1 => { s.found_a_miss(); (1, 1) }
        2 => { s.add_key(); (2, 1) }
        3 => { s.delete_key(); (3, 1) }
        4 => { s.update_key(); (4, 1) }
        5 => { s.reject_key(); (5, 1) }
        6 => { s.add_weight(delta); (6, delta) }
        7 => { s.remove_weight(delta); (7, delta) }
        8 => { s.add_access(delta); (8, delta) }
        _ => { s.drop_access(delta); (9, delta) }
    };
    assert!(same(snapshot(&s), bumped(before, idx, d)));
}

// The discriminants the getters and `add` index with are the documented ones.
#[kani::proof]
#[kani::unwind(12)]
fn stats_type_indices() {
    assert!(StatsType::CacheHits as usize == 0 && StatsType::CacheMisses as usize == 1);
    assert!(StatsType::KeysAdded as usize == 2 && StatsType::KeysDeleted as usize == 3);
    assert!(StatsType::KeysUpdated as usize == 4 && StatsType::KeysRejected as usize == 5);
    assert!(StatsType::WeightAdded as usize == 6 && StatsType::WeightRemoved as usize == 7);
    assert!(StatsType::AccessAdded as usize == 8 && StatsType::AccessDropped as usize == 9);
    assert!(TOTAL_STATS == 10);
    let (s, v) = arbitrary();
    let mut i = 0;
    while i < 10 {
        assert!(s.get(&StatsType::VALUES[i]) == v[i]);
        assert!(StatsType::VALUES[i] as usize == i);
        i += 1;
    }
}

#[kani::proof]
#[kani::unwind(12)]
fn clear_zeroes_everything() {
    let (s, _) = arbitrary();
    s.clear();
    assert!(same(snapshot(&s), [0u64; 10]));
}

#[kani::proof]
#[kani::unwind(12)]
fn new_starts_at_zero() {
    let s = ConcurrentStatsCounter::new();
    assert!(same(snapshot(&s), [0u64; 10]));
}

// hit_ratio: zero only when there were no hits (or no lookups, which implies no hits); otherwise
// hits / (hits + misses).  Domain: all hits, misses with hits + misses < 2^64.
// Region of the known finding F-C16-hit-ratio: misses == 0 < hits.
fn hit_ratio_case(hits: u64, misses: u64) -> f64 {
    let mut v = [0u64; 10];
    v[0] = hits;
    v[1] = misses;
    with_values(v).hit_ratio()
}

#[kani::proof]
fn hit_ratio_zero_only_without_hits() {
    let hits: u64 = kani::any();
    let misses: u64 = kani::any();
    kani::assume(hits.checked_add(misses).is_some());
    let r = hit_ratio_case(hits, misses);
    if hits == 0 { assert!(r == 0.0); }
    if hits > 0 { assert!(r > 0.0); }
    assert!(r >= 0.0 && r <= 1.0);
    kani::cover!(hits > 0 && misses == 0, "all-hit workload");
    kani::cover!(hits == 0 && misses > 0, "all-miss workload");
}

// The exact quotient.  Proving the equality of two IEEE-754 divisions for all u64 pairs is beyond CBMC
// (two 64-bit divider circuits; no answer in 15 min even for u32), so this obligation is BOUNDED:
// hits, misses < 32 (every pair enumerated symbolically).  The full-domain facts are in
// hit_ratio_zero_only_without_hits above.
#[kani::proof]
fn hit_ratio_is_the_quotient_small() {
    let hits: u8 = kani::any();
    let misses: u8 = kani::any();
    kani::assume(hits < 32 && misses < 32);
    let r = hit_ratio_case(hits as u64, misses as u64);
    if hits == 0 { assert!(r == 0.0); }
    else { assert!(r == (hits as f64) / ((hits as u64 + misses as u64) as f64)); }
    kani::cover!(hits > 0 && misses == 0, "all-hit workload");
}
