//! Kani harnesses for src/cache/lfu/tiny_lfu.rs (child module `verif_kani`) - C14 twins + constructor for C06.
#![allow(dead_code, unused_imports)]
use super::TinyLFU;
use crate::cache::lfu::doorkeeper::verif_kani::arbitrary_doorkeeper;
use crate::cache::lfu::frequency_counter::verif_kani::{arbitrary_sketch_2, sketch_with_arbitrary_classes};

/// arbitrary well-formed TinyLFU over a 2-counter sketch: symbolic counters, seeds, window position
pub(crate) fn arbitrary_tiny_lfu() -> TinyLFU {
    let reset_at: u64 = kani::any();
    let total: u64 = kani::any();
    kani::assume(reset_at >= 1 && total < reset_at);
    TinyLFU { key_access_frequency: arbitrary_sketch_2(), door_keeper: arbitrary_doorkeeper(), total_increments: total, reset_counters_at: reset_at }
}

/// TinyLFU whose estimate is arbitrary per hash class (h % 4), for the admission harnesses
pub(crate) fn tiny_lfu_with_arbitrary_estimates() -> TinyLFU {
    TinyLFU { key_access_frequency: sketch_with_arbitrary_classes(), door_keeper: crate::cache::lfu::doorkeeper::DoorKeeper::new(4, 0.01), total_increments: 0, reset_counters_at: 1000 }
}

// one recorded access never lowers any estimate inside a window and raises the accessed key's by one up to 16;
// at the window end every estimate is at most 8
#[kani::proof]
#[kani::unwind(6)]
fn access_step_small_sketch() {
    let mut t = arbitrary_tiny_lfu();
    let (h, g): (u64, u64) = (kani::any(), kani::any());
    let (eh, eg) = (t.estimate(h), t.estimate(g));
    let ages = t.total_increments + 1 >= t.reset_counters_at;
    t.increment_access_for(h);
    if !ages {
        assert!(t.estimate(h) >= if eh < 16 { eh + 1 } else { 16 });
        assert!(t.estimate(g) >= eg);
    } else {
        assert!(t.total_increments == 0);
        assert!(t.estimate(g) <= 7 && t.estimate(h) <= 7);
    }
    assert!(t.estimate(h) <= 16 && t.estimate(g) <= 16);
    kani::cover!(ages, "window end");
    kani::cover!(!ages && eh == 16, "saturated estimate");
}
