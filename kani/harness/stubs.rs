//! Injected at the crate root of the scratch copy as `crate::verif_stubs` (cfg(kani) only).
//!
//! 1. Stubs for parking_lot_core's contended paths.  kani-compiler crashes on them, and in a
//!    sequential harness reaching one means a lock is taken while it is already held by the same
//!    thread (self-deadlock), so every stub panics: that doubles as a re-entrancy check.
//! 2. `verif_harness!`: attaches `#[kani::proof]` plus those stubs to a harness function.
#![allow(dead_code, unused_imports, unused_macros)]
use std::time::Instant;
use parking_lot_core::{FilterOp, ParkResult, ParkToken, RequeueOp, UnparkResult, UnparkToken};

pub unsafe fn park(_key: usize, _validate: impl FnOnce() -> bool, _before_sleep: impl FnOnce(), _timed_out: impl FnOnce(usize, bool), _park_token: ParkToken, _timeout: Option<Instant>) -> ParkResult { panic!("lock contended in sequential harness (self-deadlock)") }
pub unsafe fn unpark_one(_key: usize, _callback: impl FnOnce(UnparkResult) -> UnparkToken) -> UnparkResult { panic!("lock contended in sequential harness (self-deadlock)") }
pub unsafe fn unpark_all(_key: usize, _unpark_token: UnparkToken) -> usize { panic!("lock contended in sequential harness (self-deadlock)") }
pub unsafe fn unpark_requeue(_key_from: usize, _key_to: usize, _validate: impl FnOnce() -> RequeueOp, _callback: impl FnOnce(RequeueOp, UnparkResult) -> UnparkToken) -> UnparkResult { panic!("lock contended in sequential harness (self-deadlock)") }
pub unsafe fn unpark_filter(_key: usize, _filter: impl FnMut(ParkToken) -> FilterOp, _callback: impl FnOnce(UnparkResult) -> UnparkToken) -> UnparkResult { panic!("lock contended in sequential harness (self-deadlock)") }
pub fn spin(_s: &mut parking_lot_core::SpinWait) -> bool { panic!("lock contended in sequential harness (self-deadlock)") }
pub fn spin_no_yield(_s: &mut parking_lot_core::SpinWait) { panic!("lock contended in sequential harness (self-deadlock)") }

// parking_lot's own slow paths: reached only when a lock is already held (sequentially: self-deadlock)
pub fn rw_lock_exclusive_slow(_l: &parking_lot::RawRwLock, _timeout: Option<Instant>) -> bool { panic!("RwLock write-locked while held (self-deadlock)") }
pub fn rw_lock_shared_slow(_l: &parking_lot::RawRwLock, _recursive: bool, _timeout: Option<Instant>) -> bool { panic!("RwLock read-locked while write-held (self-deadlock)") }
pub fn rw_unlock_exclusive_slow(_l: &parking_lot::RawRwLock, _force_fair: bool) { panic!("RwLock unlock with parked threads in a sequential harness") }
pub fn rw_unlock_shared_slow(_l: &parking_lot::RawRwLock) { panic!("RwLock unlock with parked threads in a sequential harness") }
pub fn mutex_lock_slow(_l: &parking_lot::RawMutex, _timeout: Option<Instant>) -> bool { panic!("Mutex locked while held (self-deadlock)") }
pub fn mutex_unlock_slow(_l: &parking_lot::RawMutex, _force_fair: bool) { panic!("Mutex unlock with parked threads in a sequential harness") }

macro_rules! verif_harness {
    ($(#[$m:meta])* fn $name:ident() $body:block) => {
        #[kani::proof]
        #[kani::stub(parking_lot_core::park, crate::verif_stubs::park)]
        #[kani::stub(parking_lot_core::unpark_one, crate::verif_stubs::unpark_one)]
        #[kani::stub(parking_lot_core::unpark_all, crate::verif_stubs::unpark_all)]
        #[kani::stub(parking_lot_core::unpark_requeue, crate::verif_stubs::unpark_requeue)]
        #[kani::stub(parking_lot_core::unpark_filter, crate::verif_stubs::unpark_filter)]
        #[kani::stub(parking_lot_core::SpinWait::spin, crate::verif_stubs::spin)]
        #[kani::stub(parking_lot_core::SpinWait::spin_no_yield, crate::verif_stubs::spin_no_yield)]
        #[kani::stub(parking_lot::RawRwLock::lock_exclusive_slow, crate::verif_stubs::rw_lock_exclusive_slow)]
        #[kani::stub(parking_lot::RawRwLock::lock_shared_slow, crate::verif_stubs::rw_lock_shared_slow)]
        #[kani::stub(parking_lot::RawRwLock::unlock_exclusive_slow, crate::verif_stubs::rw_unlock_exclusive_slow)]
        #[kani::stub(parking_lot::RawRwLock::unlock_shared_slow, crate::verif_stubs::rw_unlock_shared_slow)]
        #[kani::stub(parking_lot::RawMutex::lock_slow, crate::verif_stubs::mutex_lock_slow)]
        #[kani::stub(parking_lot::RawMutex::unlock_slow, crate::verif_stubs::mutex_unlock_slow)]
        $(#[$m])*
        fn $name() $body
    };
}
pub(crate) use verif_harness;

/// An `Arc<T>` whose allocation lives on the caller's stack.  CBMC treats a real `Arc::new` allocation
/// as an untyped byte array, which makes every access through it roughly ten times more expensive;
/// this gives the code under test the `Arc` it asks for without the heap object.
/// Relies on std's `ArcInner` being `#[repr(C)] { strong, weak, data }` (it is, in the pinned toolchain);
/// the strong count starts at 2 so the value is never freed through the Arc.
#[repr(C)]
pub(crate) struct StackArc<T> { strong: std::sync::atomic::AtomicUsize, weak: std::sync::atomic::AtomicUsize, data: T }
impl<T> StackArc<T> {
    pub(crate) fn new(data: T) -> Self {
        StackArc { strong: std::sync::atomic::AtomicUsize::new(2), weak: std::sync::atomic::AtomicUsize::new(1), data }
    }
    /// The holder must not move while the returned Arc (or a clone of it) is alive.
    pub(crate) fn arc(&self) -> std::mem::ManuallyDrop<std::sync::Arc<T>> {
        std::mem::ManuallyDrop::new(unsafe { std::sync::Arc::from_raw(&self.data as *const T) })
    }
    pub(crate) fn get(&self) -> &T { &self.data }
}

/// Fallbacks used only when a harness is replayed natively against the REAL dependency crates:
/// the stand-ins have inherent methods of the same names, which take precedence over these.
pub(crate) trait InsertAt<K, V> { fn verif_insert_at(&self, slot: usize, k: K, v: V); }
impl<K: Eq + std::hash::Hash, V> InsertAt<K, V> for dashmap::DashMap<K, V> {
    fn verif_insert_at(&self, _slot: usize, k: K, v: V) { self.insert(k, v); }
}

/// `Arc<[T]>` of S elements backed by the caller's stack (see StackArc).
#[repr(C)]
pub(crate) struct StackArcSlice<T, const S: usize> { strong: std::sync::atomic::AtomicUsize, weak: std::sync::atomic::AtomicUsize, data: [T; S] }
impl<T, const S: usize> StackArcSlice<T, S> {
    pub(crate) fn new(data: [T; S]) -> Self {
        StackArcSlice { strong: std::sync::atomic::AtomicUsize::new(2), weak: std::sync::atomic::AtomicUsize::new(1), data }
    }
    pub(crate) fn arc(&self) -> std::mem::ManuallyDrop<std::sync::Arc<[T]>> {
        std::mem::ManuallyDrop::new(unsafe { std::sync::Arc::from_raw(std::ptr::slice_from_raw_parts(self.data.as_ptr(), S)) })
    }
}
pub(crate) trait MapInsertAt<K, V> { fn verif_insert_at(&mut self, slot: usize, k: K, v: V); }
impl<K: Eq + std::hash::Hash, V> MapInsertAt<K, V> for hashbrown::HashMap<K, V> {
    fn verif_insert_at(&mut self, _slot: usize, k: K, v: V) { self.insert(k, v); }
}

/// X3 stand-in for std::collections::HashSet in the eviction sampler (ASSUMED contract: a set).
/// Eight named-by-index slots, no hashing, no heap.
pub(crate) struct HashSet<T> { slots: [Option<T>; 6] }
impl<T: Eq + Copy> HashSet<T> {
    pub(crate) fn new() -> Self { HashSet { slots: [None; 6] } }
    fn at(&self, i: usize, v: &T) -> bool { self.slots[i] == Some(*v) }
    pub(crate) fn contains(&self, v: &T) -> bool {
        self.at(0, v) || self.at(1, v) || self.at(2, v) || self.at(3, v) || self.at(4, v) || self.at(5, v)
    }
    pub(crate) fn insert(&mut self, v: T) -> bool {
        if self.contains(&v) { return false; }
        if self.slots[0].is_none() { self.slots[0] = Some(v); return true; }
        if self.slots[1].is_none() { self.slots[1] = Some(v); return true; }
        if self.slots[2].is_none() { self.slots[2] = Some(v); return true; }
        if self.slots[3].is_none() { self.slots[3] = Some(v); return true; }
        if self.slots[4].is_none() { self.slots[4] = Some(v); return true; }
        if self.slots[5].is_none() { self.slots[5] = Some(v); return true; }
        panic!("HashSet stand-in capacity exceeded");
    }
    pub(crate) fn remove(&mut self, v: &T) -> bool {
        if self.at(0, v) { self.slots[0] = None; return true; }
        if self.at(1, v) { self.slots[1] = None; return true; }
        if self.at(2, v) { self.slots[2] = None; return true; }
        if self.at(3, v) { self.slots[3] = None; return true; }
        if self.at(4, v) { self.slots[4] = None; return true; }
        if self.at(5, v) { self.slots[5] = None; return true; }
        false
    }
    pub(crate) fn len(&self) -> usize {
        self.slots[0].is_some() as usize + self.slots[1].is_some() as usize + self.slots[2].is_some() as usize
            + self.slots[3].is_some() as usize + self.slots[4].is_some() as usize + self.slots[5].is_some() as usize
    }
}

/// X3 stand-in for std::collections::BinaryHeap in the eviction sampler.
/// ASSUMED contract: `pop` removes and returns an element e such that no remaining element is greater
/// than e under `Ord` (which of several equal maxima is returned is unspecified: here the first found).
/// Six slots, no heap, no loops.
pub(crate) struct BinaryHeap<T> { slots: [Option<T>; 6] }
impl<T: Ord + Copy> BinaryHeap<T> {
    pub(crate) fn new() -> Self { BinaryHeap { slots: [None; 6] } }
    pub(crate) fn len(&self) -> usize {
        self.slots[0].is_some() as usize + self.slots[1].is_some() as usize + self.slots[2].is_some() as usize
            + self.slots[3].is_some() as usize + self.slots[4].is_some() as usize + self.slots[5].is_some() as usize
    }
    pub(crate) fn is_empty(&self) -> bool { self.len() == 0 }
    pub(crate) fn push(&mut self, v: T) {
        if self.slots[0].is_none() { self.slots[0] = Some(v); return; }
        if self.slots[1].is_none() { self.slots[1] = Some(v); return; }
        if self.slots[2].is_none() { self.slots[2] = Some(v); return; }
        if self.slots[3].is_none() { self.slots[3] = Some(v); return; }
        if self.slots[4].is_none() { self.slots[4] = Some(v); return; }
        if self.slots[5].is_none() { self.slots[5] = Some(v); return; }
        panic!("BinaryHeap stand-in capacity exceeded");
    }
    fn better(&self, best: Option<usize>, i: usize) -> Option<usize> {
        match (&self.slots[i], best) {
            (None, b) => b,
            (Some(_), None) => Some(i),
            (Some(x), Some(b)) => if x.cmp(self.slots[b].as_ref().unwrap()) == std::cmp::Ordering::Greater { Some(i) } else { Some(b) },
        }
    }
    pub(crate) fn pop(&mut self) -> Option<T> {
        let mut best = None;
        best = self.better(best, 0); best = self.better(best, 1); best = self.better(best, 2);
        best = self.better(best, 3); best = self.better(best, 4); best = self.better(best, 5);
        match best { Some(b) => self.slots[b].take(), None => None }
    }
    /// verification-only view of the content
    pub(crate) fn verif_slots(&self) -> &[Option<T>; 6] { &self.slots }
    pub(crate) fn peek(&self) -> Option<&T> {
        let mut best = None;
        best = self.better(best, 0); best = self.better(best, 1); best = self.better(best, 2);
        best = self.better(best, 3); best = self.better(best, 4); best = self.better(best, 5);
        match best { Some(b) => self.slots[b].as_ref(), None => None }
    }
}

// std's Extend on the two stand-in collections (a rewrite of the sampler with iterator adapters uses it)
impl<T: Eq + Copy> HashSet<T> {
    pub(crate) fn extend<I: IntoIterator<Item = T>>(&mut self, it: I) { for v in it { self.insert(v); } }
}
impl<T: Ord + Copy> BinaryHeap<T> {
    pub(crate) fn extend<I: IntoIterator<Item = T>>(&mut self, it: I) { for v in it { self.push(v); } }
}
