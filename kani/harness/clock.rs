//! Kani harnesses for src/cache/clock.rs (child module `verif_kani`) - C09.
#![allow(dead_code, unused_imports)]
use std::time::{Duration, SystemTime};

use super::{Clock, ClockType};

/// A client clock that returns a fixed (symbolic) instant.
#[derive(Clone)]
pub(crate) struct FixedClock(pub SystemTime);
impl Clock for FixedClock {
    fn now(&self) -> SystemTime { self.0 }
}
pub(crate) fn boxed(t: SystemTime) -> ClockType { Box::new(FixedClock(t)) }

/// any Duration (all u64 seconds, all nanos < 10^9)
pub(crate) fn any_duration() -> Duration {
    let secs: u64 = kani::any();
    let nanos: u32 = kani::any();
    kani::assume(nanos < 1_000_000_000);
    Duration::new(secs, nanos)
}
/// any SystemTime at or after the Unix epoch that the platform can represent
pub(crate) fn any_time() -> SystemTime {
    let d = any_duration();
    let t = SystemTime::UNIX_EPOCH.checked_add(d);
    kani::assume(t.is_some());
    t.unwrap()
}

/// (time, whole seconds since the epoch) - lets a harness compute the shard of a time without calling
/// duration_since (whose implementation is recursive and expensive for CBMC)
pub(crate) fn any_time_with_secs() -> (SystemTime, u64) {
    let secs: u64 = kani::any();
    let nanos: u32 = kani::any();
    kani::assume(nanos < 1_000_000_000);
    kani::assume(secs <= i64::MAX as u64);
    (SystemTime::UNIX_EPOCH + Duration::new(secs, nanos), secs)
}

// has_passed(t) <=> now > t  (strictly: at the expiry instant itself the key is still alive)
#[kani::proof]
fn has_passed_is_strictly_after() {
    let now = any_time();
    let t = any_time();
    let clock = boxed(now);
    assert!(clock.has_passed(&t) == (now > t));
    kani::cover!(now == t, "boundary instant");
    kani::cover!(now > t, "past");
    kani::cover!(now < t, "future");
}
