//! Kani harnesses for src/cache/store/stored_value.rs (child module `verif_kani`) - C09, C08, C17.
//! All loop-free over the full domain of (SystemTime >= epoch, Duration, flags): K-complete.
#![allow(dead_code, unused_imports)]
use std::time::{Duration, SystemTime};

use super::StoredValue;
use crate::cache::clock::verif_kani::{any_duration, any_time, boxed};
use crate::cache::clock::ClockType;
use crate::cache::types::KeyId;

pub(crate) fn any_expiry() -> Option<SystemTime> { if kani::any() { Some(any_time()) } else { None } }

pub(crate) fn any_stored() -> StoredValue<u64> {
    StoredValue { value: kani::any(), key_id: kani::any(), expire_after: any_expiry(), is_soft_deleted: kani::any() }
}
pub(crate) fn literal(value: u64, key_id: KeyId, expire_after: Option<SystemTime>, is_soft_deleted: bool) -> StoredValue<u64> {
    StoredValue { value, key_id, expire_after, is_soft_deleted }
}
/// the specification of liveness, taken from the property statement
pub(crate) fn spec_alive(soft_deleted: bool, expiry: Option<SystemTime>, now: SystemTime) -> bool {
    !soft_deleted && match expiry { None => true, Some(e) => !(now > e) }
}

#[kani::proof]
fn is_alive_matches_spec() {
    let sv = any_stored();
    let now = any_time();
    let clock = boxed(now);
    assert!(sv.is_alive(&clock) == spec_alive(sv.is_soft_deleted, sv.expire_after, now));
    kani::cover!(sv.expire_after == Some(now) && !sv.is_soft_deleted, "boundary instant: still alive");
    kani::cover!(sv.is_soft_deleted, "soft deleted");
    kani::cover!(sv.expire_after.is_none(), "no ttl");
}

#[kani::proof]
fn never_expiring_has_no_deadline() {
    let (v, id): (u64, KeyId) = (kani::any(), kani::any());
    let sv = StoredValue::never_expiring(v, id);
    assert!(sv.expire_after().is_none() && !sv.is_soft_deleted && sv.key_id() == id && sv.value() == v && *sv.value_ref() == v);
    let clock = boxed(any_time());
    assert!(sv.is_alive(&clock));           // keys without a time-to-live never expire
}

#[kani::proof]
fn expiring_sets_deadline_now_plus_ttl() {
    let (v, id): (u64, KeyId) = (kani::any(), kani::any());
    let now = any_time();
    let ttl = any_duration();
    kani::assume(now.checked_add(ttl).is_some());      // outside region F-C17-ttl-overflow
    let clock = boxed(now);
    let sv = StoredValue::expiring(v, id, ttl, &clock);
    assert!(sv.expire_after() == now.checked_add(ttl));
    assert!(!sv.is_soft_deleted && sv.key_id() == id && sv.value() == v);
    assert!(StoredValue::<u64>::calculate_expiry(ttl, &clock) == now.checked_add(ttl).unwrap());
    // alive at creation and until the deadline; not after
    assert!(sv.is_alive(&clock));
    let later = any_time();
    assert!(sv.is_alive(&boxed(later)) == !(later > now.checked_add(ttl).unwrap()));
    kani::cover!(ttl == Duration::new(0, 0), "zero ttl");
}

/// region F-C17-ttl-overflow: now + ttl not representable -> calculate_expiry panics (on the worker thread)
#[kani::proof]
fn ttl_overflow_region_cover() {
    let now = any_time();
    let ttl = any_duration();
    kani::assume(now.checked_add(ttl).is_none());
    kani::cover!(true, "F-C17-ttl-overflow: now + time_to_live overflows SystemTime");
}

#[kani::proof]
fn update_changes_exactly_what_was_requested() {
    let mut sv = any_stored();
    let (old_value, old_id, old_expiry, old_deleted) = (sv.value, sv.key_id, sv.expire_after, sv.is_soft_deleted);
    let new_value: Option<u64> = kani::any();
    let ttl: Option<Duration> = if kani::any() { Some(any_duration()) } else { None };
    let remove: bool = kani::any();
    let now = any_time();
    if let Some(t) = ttl { kani::assume(now.checked_add(t).is_some()); }
    let clock = boxed(now);
    let r = sv.update(new_value, ttl, remove, &clock);
    let expected_expiry = if remove { None } else if let Some(t) = ttl { now.checked_add(t) } else { old_expiry };
    assert!(sv.expire_after == expected_expiry);
    assert!(r == expected_expiry);
    assert!(sv.value == match new_value { Some(v) => v, None => old_value });
    assert!(sv.key_id == old_id);
    assert!(sv.is_soft_deleted == old_deleted);
    kani::cover!(remove && ttl.is_some(), "both given (builder rejects it; remove wins)");
    kani::cover!(!remove && ttl.is_none() && new_value.is_some(), "value only");
    kani::cover!(!remove && ttl.is_some() && new_value.is_none(), "ttl only");
}
