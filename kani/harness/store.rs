//! Kani harnesses for src/cache/store/mod.rs (child module `verif_kani`) - C02, C04, C07, C08, C09, C16.
//! Hoare triples on the real Store functions from an arbitrary store with at most N entries
//! (symbolic key, value, key id, expiry, soft-delete flag; symbolic clock and statistics).
#![allow(dead_code, unused_imports)]
use std::sync::Arc;
use std::time::{Duration, SystemTime};

use dashmap::DashMap;

use super::stored_value::verif_kani::{any_expiry, literal, spec_alive};
use super::stored_value::StoredValue;
use super::{KeyIdExpiry, Store, TypeOfExpiryUpdate, UpdateResponse};
use crate::cache::clock::verif_kani::{any_duration, any_time, boxed};
use crate::cache::stats::verif_kani as st;
use crate::cache::types::KeyId;
use crate::verif_stubs::{verif_harness, InsertAt};

#[derive(Copy, Clone)]
pub(crate) struct E { pub key: u64, pub value: u64, pub id: KeyId, pub expiry: Option<SystemTime>, pub deleted: bool }

pub(crate) struct Model<const N: usize> { pub now: SystemTime, pub present: [bool; N], pub e: [E; N], pub stats: [u64; 10] }

impl<const N: usize> Model<N> {
    pub fn find(&self, key: u64) -> Option<E> {
        let mut i = 0;
        while i < N { if self.present[i] && self.e[i].key == key { return Some(self.e[i]); } i += 1; }
        None
    }
    pub fn count(&self) -> usize { let (mut i, mut n) = (0, 0); while i < N { if self.present[i] { n += 1; } i += 1; } n }
    pub fn readable(&self, key: u64) -> Option<u64> {
        match self.find(key) { Some(e) if spec_alive(e.deleted, e.expiry, self.now) => Some(e.value), _ => None }
    }
}

pub(crate) fn arbitrary<const N: usize>() -> (Store<u64, u64>, Model<N>) {
    let now = any_time();
    let map: DashMap<u64, StoredValue<u64>> = DashMap::with_capacity_and_shard_amount(N + 1, 2);
    let mut e = [E { key: 0, value: 0, id: 0, expiry: None, deleted: false }; N];
    let mut present = [false; N];
    let mut i = 0;
    while i < N {
        if kani::any() {
            let x = E { key: kani::any(), value: kani::any(), id: kani::any(), expiry: any_expiry(), deleted: kani::any() };
            let mut j = 0;
            while j < i { kani::assume(!present[j] || e[j].key != x.key); j += 1; }
            e[i] = x;
            present[i] = true;
            map.verif_insert_at(i, x.key, literal(x.value, x.id, x.expiry, x.deleted));
        }
        i += 1;
    }
    let (stats, sv) = st::arbitrary();
    // the Store lives on the stack: moving it into a real Arc makes every later access a byte-level
    // heap access in CBMC (measured 10x slower); its methods only need &self
    let store = Store { store: map, clock: boxed(now), stats_counter: Arc::new(stats) };
    (store, Model { now, present, e, stats: sv })
}

/// physical content of key `k` read directly from the map (no statistics touched)
fn raw(store: &Store<u64, u64>, k: u64) -> Option<E> {
    store.store.get(&k).map(|r| E { key: *r.key(), value: *r.value().value_ref(), id: r.value().key_id(), expiry: r.value().expire_after(), deleted: r.value().is_soft_deleted })
}
fn same(a: Option<E>, b: Option<E>) -> bool {
    match (a, b) {
        (None, None) => true,
        (Some(x), Some(y)) => x.key == y.key && x.value == y.value && x.id == y.id && x.expiry == y.expiry && x.deleted == y.deleted,
        _ => false,
    }
}
/// frame: every entry of the model other than `except` is physically unchanged
fn others_unchanged<const N: usize>(store: &Store<u64, u64>, m: &Model<N>, except: u64) {
    let mut i = 0;
    while i < N {
        if m.present[i] && m.e[i].key != except { assert!(same(raw(store, m.e[i].key), Some(m.e[i]))); }
        i += 1;
    }
}
fn stats_are(store: &Store<u64, u64>, expected: [u64; 10]) { assert!(st::same(st::snapshot(&store.stats_counter), expected)); }

// ---- reads -------------------------------------------------------------------------------------
fn t_get<const N: usize>() {
    let (store, m) = arbitrary::<N>();
    let k: u64 = kani::any();
    let r = store.get(&k);
    assert!(r == m.readable(k));                        // Some(v) <=> entry exists, alive, v is ITS value
    assert!(same(raw(&store, k), m.find(k)));
    others_unchanged(&store, &m, k);
    assert!(store.store.len() == m.count());
    stats_are(&store, st::bumped(m.stats, if r.is_some() { 0 } else { 1 }, 1));   // one lookup = one hit or one miss
    kani::cover!(r.is_some(), "hit");
    kani::cover!(m.find(k).is_some() && r.is_none(), "present but not alive");
    kani::cover!(m.find(k).is_none(), "absent");
}

fn t_get_ref<const N: usize>() {
    let (store, m) = arbitrary::<N>();
    let k: u64 = kani::any();
    {
        let r = store.get_ref(&k);
        match &r {
            Some(kv) => {
                assert!(m.readable(k) == Some(*kv.value().value_ref()));
                assert!(*kv.key() == k);
                assert!(kv.value().key_id() == m.find(k).unwrap().id);
            }
            None => { assert!(m.readable(k).is_none()); }
        }
        stats_are(&store, st::bumped(m.stats, if r.is_some() { 0 } else { 1 }, 1));
        kani::cover!(r.is_some(), "hit");
    }
    assert!(same(raw(&store, k), m.find(k)));
    others_unchanged(&store, &m, k);
    assert!(store.store.len() == m.count());
}

fn t_is_present<const N: usize>() {
    let (store, m) = arbitrary::<N>();
    let k: u64 = kani::any();
    let p = store.is_present(&k);
    assert!(p == m.find(k).is_some());
    stats_are(&store, m.stats);                          // an existence check is not a lookup
    assert!(same(raw(&store, k), m.find(k)));
    others_unchanged(&store, &m, k);
    // C07 link: outside the region "expired but unswept" (F-C07-expired-put) and outside a pending
    // delete, a key that is reported present is readable
    if let Some(e) = m.find(k) {
        let expired = match e.expiry { Some(x) => m.now > x, None => false };
        if !expired && !e.deleted { assert!(p && m.readable(k).is_some()); }
    } else {
        assert!(!p);                                    // a key that is not held is never "already exists"
    }
}

/// region F-C07-expired-put: present, not soft-deleted, expiry passed, not swept
fn t_expired_put_region_cover<const N: usize>() {
    let (store, m) = arbitrary::<N>();
    let k: u64 = kani::any();
    let p = store.is_present(&k);
    let e = m.find(k);
    kani::assume(e.is_some());
    let e = e.unwrap();
    kani::assume(!e.deleted && e.expiry.is_some() && m.now > e.expiry.unwrap());
    kani::cover!(p && store.get(&k).is_none(), "F-C07-expired-put: key reads as absent but the existence check says present");
}

// ---- writers -----------------------------------------------------------------------------------
fn t_put<const N: usize>() {
    let (store, m) = arbitrary::<N>();
    let (k, v, id): (u64, u64, KeyId) = (kani::any(), kani::any(), kani::any());
    store.put(k, v, id);
    assert!(same(raw(&store, k), Some(E { key: k, value: v, id, expiry: None, deleted: false })));
    others_unchanged(&store, &m, k);
    assert!(store.store.len() == m.count() + if m.find(k).is_some() { 0 } else { 1 });
    stats_are(&store, st::bumped(m.stats, 2, 1));
    assert!(store.get(&k) == Some(v));                  // visible at once, never expires
}

fn t_put_with_ttl<const N: usize>() {
    let (store, m) = arbitrary::<N>();
    let (k, v, id): (u64, u64, KeyId) = (kani::any(), kani::any(), kani::any());
    let ttl = any_duration();
    kani::assume(m.now.checked_add(ttl).is_some());     // outside F-C17-ttl-overflow
    let r = store.put_with_ttl(k, v, id, ttl);
    assert!(Some(r) == m.now.checked_add(ttl));
    assert!(same(raw(&store, k), Some(E { key: k, value: v, id, expiry: Some(r), deleted: false })));
    others_unchanged(&store, &m, k);
    assert!(store.store.len() == m.count() + if m.find(k).is_some() { 0 } else { 1 });
    stats_are(&store, st::bumped(m.stats, 2, 1));
}

fn t_delete<const N: usize>() {
    let (store, m) = arbitrary::<N>();
    let k: u64 = kani::any();
    let r = store.delete(&k);
    match m.find(k) {
        Some(e) => {
            assert!(r == Some(KeyIdExpiry(e.id, e.expiry)));
            assert!(store.store.len() == m.count() - 1);
            stats_are(&store, st::bumped(m.stats, 3, 1));
        }
        None => {
            assert!(r.is_none());
            assert!(store.store.len() == m.count());
            stats_are(&store, m.stats);
        }
    }
    assert!(raw(&store, k).is_none());
    assert!(!store.is_present(&k));                      // so a later put is not refused as existing
    others_unchanged(&store, &m, k);
}

fn t_mark_deleted<const N: usize>() {
    let (store, m) = arbitrary::<N>();
    let k: u64 = kani::any();
    store.mark_deleted(&k);
    match m.find(k) {
        Some(e) => { assert!(same(raw(&store, k), Some(E { deleted: true, ..e }))); }
        None => { assert!(raw(&store, k).is_none()); }
    }
    others_unchanged(&store, &m, k);
    assert!(store.store.len() == m.count());
    stats_are(&store, m.stats);
    // C04: hidden immediately from every read
    assert!(store.get(&k).is_none());
    assert!(store.get_ref(&k).is_none());
}

fn t_update<const N: usize>() {
    let (store, m) = arbitrary::<N>();
    let k: u64 = kani::any();
    let value: Option<u64> = kani::any();
    let ttl: Option<Duration> = if kani::any() { Some(any_duration()) } else { None };
    let remove: bool = kani::any();
    if let Some(t) = ttl { kani::assume(m.now.checked_add(t).is_some()); }
    let r = store.update(&k, value, ttl, remove);
    match m.find(k) {
        Some(e) => {
            let new_expiry = if remove { None } else if let Some(t) = ttl { m.now.checked_add(t) } else { e.expiry };
            let new_value = match value { Some(v) => v, None => e.value };
            assert!(same(raw(&store, k), Some(E { value: new_value, expiry: new_expiry, ..e })));
            assert!(r.0 == Some(KeyIdExpiry(e.id, e.expiry)) && r.1 == new_expiry && r.2.is_none());
            assert!(r.did_update_happen() && r.existing_expiry() == e.expiry && r.new_expiry() == new_expiry && r.key_id_or_panic() == e.id);
        }
        None => {
            assert!(raw(&store, k).is_none());
            assert!(r.0.is_none() && r.1.is_none() && r.2 == value);     // value handed back for the put path
            assert!(!r.did_update_happen());
        }
    }
    others_unchanged(&store, &m, k);
    assert!(store.store.len() == m.count());
    stats_are(&store, m.stats);
    kani::cover!(m.find(k).is_some() && value.is_some() && ttl.is_some(), "value and ttl");
    kani::cover!(m.find(k).is_some() && remove, "remove ttl");
}

/// C08 link: an update is applied only to a key that can be read.  Region F-C08-dead-upsert:
/// physically present but expired-unswept or soft-deleted.
fn t_dead_upsert_region_cover<const N: usize>() {
    let (store, m) = arbitrary::<N>();
    let k: u64 = kani::any();
    kani::assume(m.find(k).is_some() && m.readable(k).is_none());
    let r = store.update(&k, Some(kani::any()), None, false);
    kani::cover!(r.did_update_happen() && store.get(&k).is_none(), "F-C08-dead-upsert: update applied to an entry no read can return");
}

fn t_clear<const N: usize>() {
    let (store, _m) = arbitrary::<N>();
    store.clear();
    assert!(store.store.len() == 0);
}

verif_harness! { #[kani::unwind(6)] fn get_n2() { t_get::<2>() } }
verif_harness! { #[kani::unwind(6)] fn get_ref_n2() { t_get_ref::<2>() } }
verif_harness! { #[kani::unwind(6)] fn is_present_n2() { t_is_present::<2>() } }
verif_harness! { #[kani::unwind(6)] fn expired_put_region_cover_n2() { t_expired_put_region_cover::<2>() } }
verif_harness! { #[kani::unwind(6)] fn put_n2() { t_put::<2>() } }
verif_harness! { #[kani::unwind(6)] fn put_with_ttl_n2() { t_put_with_ttl::<2>() } }
verif_harness! { #[kani::unwind(6)] fn delete_n2() { t_delete::<2>() } }
verif_harness! { #[kani::unwind(6)] fn mark_deleted_n2() { t_mark_deleted::<2>() } }
verif_harness! { #[kani::unwind(6)] fn update_n2() { t_update::<2>() } }
verif_harness! { #[kani::unwind(6)] fn dead_upsert_region_cover_n2() { t_dead_upsert_region_cover::<2>() } }
verif_harness! { #[kani::unwind(6)] fn clear_n2() { t_clear::<2>() } }
verif_harness! { #[kani::unwind(6)] fn get_n3() { t_get::<3>() } }
verif_harness! { #[kani::unwind(6)] fn get_ref_n3() { t_get_ref::<3>() } }
verif_harness! { #[kani::unwind(6)] fn put_n3() { t_put::<3>() } }
verif_harness! { #[kani::unwind(6)] fn delete_n3() { t_delete::<3>() } }
verif_harness! { #[kani::unwind(6)] fn mark_deleted_n3() { t_mark_deleted::<3>() } }
verif_harness! { #[kani::unwind(6)] fn update_n3() { t_update::<3>() } }

// ---- UpdateResponse::type_of_expiry_update: the four-way table, all Option<SystemTime> pairs ----
#[kani::proof]
fn type_of_expiry_update_table() {
    let id: KeyId = kani::any();
    let existing = any_expiry();
    let new = any_expiry();
    let r: UpdateResponse<u64> = UpdateResponse(Some(KeyIdExpiry(id, existing)), new, None);
    let t = r.type_of_expiry_update();
    let expected = match (existing, new) {
        (None, None) => TypeOfExpiryUpdate::Nothing,
        (None, Some(n)) => TypeOfExpiryUpdate::Added(id, n),
        (Some(o), None) => TypeOfExpiryUpdate::Deleted(id, o),
        (Some(o), Some(n)) => if o != n { TypeOfExpiryUpdate::Updated(id, o, n) } else { TypeOfExpiryUpdate::Nothing },
    };
    assert!(t == expected);
    kani::cover!(existing.is_some() && existing == new, "same expiry");
}

