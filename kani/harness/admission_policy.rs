//! Kani harnesses for src/cache/policy/admission_policy.rs (child module `verif_kani`) - C06, C01, C03.
//! The real maybe_add / create_space / delete / update on an AdmissionPolicy built by struct literal:
//! real CacheWeight (arbitrary INV_w state, <= N residents, every slot order), real TinyLFU over a
//! 2-counter sketch with symbolic counters and seeds (so estimates are arbitrary), symbolic hashes.
//! The postcondition is the property statement written as an executable specification.
#![allow(dead_code, unused_imports)]
use std::cell::RefCell;
use std::cmp::Ordering;
use std::sync::atomic::AtomicBool;
use std::sync::Arc;

use parking_lot::RwLock;

use super::AdmissionPolicy;
use crate::cache::command::{CommandStatus, RejectionReason};
use crate::cache::key_description::KeyDescription;
use crate::cache::lfu::tiny_lfu::verif_kani::tiny_lfu_with_arbitrary_estimates;
use crate::cache::lfu::tiny_lfu::TinyLFU;
use crate::verif_stubs::StackArc;
use crate::cache::policy::cache_weight::verif_kani as cwk;
use crate::cache::stats::verif_kani as st;
use crate::cache::stats::ConcurrentStatsCounter;
use crate::cache::types::{KeyId, Weight};
use crate::verif_stubs::verif_harness;

/// `lfu` must outlive the policy and must not move (stack-backed Arc, see StackArc)
pub(crate) fn arbitrary_policy<const N: usize>(stats: Arc<ConcurrentStatsCounter>, lfu: &StackArc<RwLock<TinyLFU>>) -> (std::mem::ManuallyDrop<AdmissionPolicy<u64>>, cwk::Model<N>) {
    let (cache_weight, m) = cwk::arbitrary_sharing::<N>(stats.clone());
    // a zero-capacity channel: the sender is never used by the functions under test; ManuallyDrop
    // keeps its disconnect logic out of the proof
    // `sender` is never touched by the functions under test (only `accept`/`shutdown` use it) and the policy
    // is never dropped: an all-zero placeholder avoids building a real crossbeam channel inside the proof.
    let sender: crossbeam_channel::Sender<crate::cache::buffer_event::BufferEvent> = unsafe { std::mem::MaybeUninit::zeroed().assume_init() };
    let policy = AdmissionPolicy {
        access_frequency: Arc::clone(&lfu.arc()),
        cache_weight,
        sender,
        keep_running: Arc::new(AtomicBool::new(true)),
        stats_counter: stats,
    };
    (std::mem::ManuallyDrop::new(policy), m)
}

struct Victims { n: usize, keys: [u64; 4] }

/// Contract-level stand-in for AdmissionPolicy::estimate (used with #[kani::stub] in the eviction
/// harnesses): the estimate is a PURE function of the key hash while nobody records accesses - that is
/// TinyLFU::estimate's contract, proved in the Verus unit `sketch` (`r == self.est(key_hash)`, `&self`).
/// The function is arbitrary: one symbolic value (0..=16) per hash class h % 4.
static mut ESTIMATES: [u8; 4] = [0; 4];
pub(crate) fn estimate_by_contract<Key>(_p: &AdmissionPolicy<Key>, key_hash: u64) -> u8
    where Key: std::hash::Hash + Eq + Send + Sync + Clone + 'static { unsafe { ESTIMATES[(key_hash % 4) as usize] } }
fn choose_estimates() {
    let e: [u8; 4] = kani::any();
    kani::assume(e[0] <= 16 && e[1] <= 16 && e[2] <= 16 && e[3] <= 16);
    unsafe { ESTIMATES = e; }
}

/// maybe_add against the TinyLFU admission rule (the property statement, executable)
fn t_maybe_add<const N: usize>() {
    let stats = Arc::new(st::zeroed());
    let lfu = std::mem::ManuallyDrop::new(StackArc::new(RwLock::new(tiny_lfu_with_arbitrary_estimates())));
    let (policy, m) = arbitrary_policy::<N>(stats, &lfu);
    choose_estimates();
    let kd = KeyDescription::new(kani::any::<u64>(), kani::any(), kani::any(), kani::any());
    kani::assume(kd.weight > 0);
    kani::assume(m.find(kd.id).is_none());                          // fresh id
    let incoming = policy.estimate(kd.hash);
    // estimates of the residents, read before anything moves (estimates do not change during maybe_add)
    let mut est = [0u8; N];
    let mut i = 0;
    while i < N { if m.present[i] { est[i] = policy.estimate(m.entries[i].hash); } i += 1; }

    let victims = RefCell::new(Victims { n: 0, keys: [0; 4] });
    let hook = |key: u64| { let mut v = victims.borrow_mut(); let n = v.n; v.keys[n] = key; v.n += 1; };
    let status = policy.maybe_add(&kd, &hook);
    let v = victims.borrow();

    if kd.weight > m.max {
        // heavier than the whole cache: rejected for that reason, nothing changes
        assert!(status == CommandStatus::Rejected(RejectionReason::KeyWeightIsGreaterThanCacheWeight));
        assert!(v.n == 0);
        cwk::check_matches(&policy.cache_weight, &m);
    } else if kd.weight <= m.max - m.used {
        // fits in the free space: always accepted, evicts nothing
        assert!(status == CommandStatus::Accepted);
        assert!(v.n == 0);
        assert!(policy.weight_used() == m.used + kd.weight);
        assert!(policy.weight_of(&kd.id) == Some(kd.weight));
    } else {
        // eviction: replay the rule on the model
        let mut alive = m.present;
        let mut space = m.max - m.used;
        let mut k = 0;            // victims consumed
        let mut decided: Option<CommandStatus> = None;
        let mut round = 0;
        while round <= N {
            if space >= kd.weight { decided = Some(CommandStatus::Accepted); break; }
            // a maximal candidate under the sampler's order: lowest estimate, ties: heaviest
            let mut best: Option<usize> = None;
            let mut j = 0;
            while j < N {
                if alive[j] {
                    best = match best {
                        None => Some(j),
                        Some(b) => if est[j] < est[b] || (est[j] == est[b] && m.entries[j].weight > m.entries[b].weight) { Some(j) } else { Some(b) },
                    };
                }
                j += 1;
            }
            match best {
                None => {   // sample ran dry
                    decided = Some(if space >= kd.weight { CommandStatus::Accepted } else { CommandStatus::Rejected(RejectionReason::EnoughSpaceIsNotAvailableAndKeyFailedToEvictOthers) });
                    break;
                }
                Some(b) => {
                    if incoming < est[b] {
                        // the coldest sampled key is hotter than the incoming key: reject, evict nothing more
                        decided = Some(CommandStatus::Rejected(RejectionReason::EnoughSpaceIsNotAvailableAndKeyFailedToEvictOthers));
                        break;
                    }
                    // the next victim must be a maximal candidate (any one of the equals)
                    assert!(k < v.n);
                    let mut which: Option<usize> = None;
                    let mut j = 0;
                    while j < N { if alive[j] && m.entries[j].key == v.keys[k] && which.is_none() { which = Some(j); } j += 1; }
                    assert!(which.is_some());
                    let w = which.unwrap();
                    assert!(est[w] == est[b] && m.entries[w].weight == m.entries[b].weight);
                    assert!(est[w] <= incoming);                    // a colder key never evicts a hotter one
                    alive[w] = false;
                    space += m.entries[w].weight;
                    k += 1;
                }
            }
            round += 1;
        }
        assert!(decided.is_some());
        assert!(status == decided.unwrap());
        assert!(v.n == k);                                          // no victim beyond the rule
        // resulting state: survivors intact, victims gone, total consistent
        let mut sum = 0;
        let mut j = 0;
        while j < N {
            if m.present[j] {
                if alive[j] { assert!(policy.weight_of(&m.entries[j].id) == Some(m.entries[j].weight)); sum += m.entries[j].weight; }
                else { assert!(!policy.contains(&m.entries[j].id)); }
            }
            j += 1;
        }
        if status == CommandStatus::Accepted { sum += kd.weight; assert!(policy.weight_of(&kd.id) == Some(kd.weight)); }
        else { assert!(!policy.contains(&kd.id)); }
        assert!(policy.weight_used() == sum);
        kani::cover!(k >= 2, "multi-victim eviction");
        kani::cover!(k == 1 && status == CommandStatus::Accepted, "one victim, accepted");
        kani::cover!(k >= 1 && status != CommandStatus::Accepted, "victims evicted, then rejected");
        kani::cover!(k == 0 && status != CommandStatus::Accepted, "rejected without eviction");
    }
    // C01: every accepted put leaves the total at or below the limit (and always within [0, max])
    assert!(0 <= policy.weight_used() && policy.weight_used() <= m.max);
    if status == CommandStatus::Accepted { assert!(policy.contains(&kd.id)); } else { assert!(!policy.contains(&kd.id)); }
    kani::cover!(kd.weight > m.max, "heavier than the cache");
    kani::cover!(kd.weight <= m.max - m.used, "fits");
}

fn t_delete_update<const N: usize>() {
    let stats = Arc::new(st::zeroed());
    let lfu = StackArc::new(RwLock::new(tiny_lfu_with_arbitrary_estimates()));
    let (policy, m) = arbitrary_policy::<N>(stats, &lfu);
    let id: KeyId = kani::any();
    if kani::any() {
        policy.delete(&id);
        match m.find(id) {
            Some(e) => { assert!(policy.weight_used() == m.used - e.weight && !policy.contains(&id)); }
            None => { cwk::check_matches(&policy.cache_weight, &m); }
        }
    } else {
        let w: Weight = kani::any();
        kani::assume(w > 0);
        if let Some(e) = m.find(id) { kani::assume(w - e.weight <= m.max - m.used); }     // outside F-C01-update
        policy.update(&id, w);
        match m.find(id) {
            Some(e) => { assert!(policy.weight_used() == m.used - e.weight + w && policy.weight_of(&id) == Some(w)); }
            None => { cwk::check_matches(&policy.cache_weight, &m); }
        }
    }
    assert!(0 <= policy.weight_used() && policy.weight_used() <= m.max);
}

verif_harness! { #[kani::unwind(4)] #[kani::stub(AdmissionPolicy::estimate, estimate_by_contract)] fn maybe_add_n2() { t_maybe_add::<2>() } }
verif_harness! { #[kani::unwind(5)] #[kani::stub(AdmissionPolicy::estimate, estimate_by_contract)] fn maybe_add_n3() { t_maybe_add::<3>() } }
verif_harness! { #[kani::unwind(5)] fn delete_update_n2() { t_delete_update::<2>() } }

// experiments
verif_harness! { #[kani::unwind(3)] #[kani::stub(AdmissionPolicy::estimate, estimate_by_contract)] fn maybe_add_n1() { t_maybe_add::<1>() } }

