//! Kani harnesses for src/cache/put_or_update.rs (child module `verif_kani`) - C08, C17.  Loop-free, full domain.
#![allow(dead_code, unused_imports)]
use std::time::Duration;

use super::{PutOrUpdateRequest, PutOrUpdateRequestBuilder};
use crate::cache::clock::verif_kani::any_duration;
use crate::cache::types::Weight;

// updated_weight: the explicit weight; else the weight function of the new value with the right
// ttl flag; else None.  The weight function is an arbitrary total function (symbolic results).
#[kani::proof]
fn updated_weight_table() {
    let key: u64 = kani::any();
    let value: Option<u64> = kani::any();
    let weight: Option<Weight> = kani::any();
    let ttl: Option<Duration> = if kani::any() { Some(any_duration()) } else { None };
    let remove: bool = kani::any();
    let (w_with_ttl, w_without): (Weight, Weight) = (kani::any(), kani::any());
    let request = PutOrUpdateRequest { key, value, weight, time_to_live: ttl, remove_time_to_live: remove };
    let f = move |k: &u64, v: &u64, with_ttl: bool| -> Weight {
        assert!(*k == key && Some(*v) == value);                 // called on this key and the NEW value
        if with_ttl { w_with_ttl } else { w_without }
    };
    let r = request.updated_weight(&f);
    let expected = match (weight, value) {
        (Some(w), _) => Some(w),
        (None, Some(_)) => Some(if ttl.is_some() { w_with_ttl } else { w_without }),
        (None, None) => None,
    };
    assert!(r == expected);
}

// the builder accepts exactly the documented combinations (all 2^4) and copies the fields
#[kani::proof]
fn builder_copies_fields() {
    let key: u64 = kani::any();
    let value: Option<u64> = kani::any();
    let weight: Option<Weight> = kani::any();
    let ttl: Option<Duration> = if kani::any() { Some(any_duration()) } else { None };
    let remove: bool = kani::any();
    // documented preconditions of a well-formed request
    kani::assume(weight.map_or(true, |w| w > 0));
    kani::assume(value.is_some() || weight.is_some() || ttl.is_some() || remove);
    kani::assume(!(ttl.is_some() && remove));
    let mut b: PutOrUpdateRequestBuilder<u64, u64> = PutOrUpdateRequestBuilder::new(key);
    if let Some(v) = value { b = b.value(v); }
    if let Some(w) = weight { b = b.weight(w); }
    if let Some(t) = ttl { b = b.time_to_live(t); }
    if remove { b = b.remove_time_to_live(); }
    let r = b.build();                                            // never panics on a well-formed request
    assert!(r.key == key && r.value == value && r.weight == weight && r.time_to_live == ttl && r.remove_time_to_live == remove);
    kani::cover!(value.is_none() && weight.is_none() && ttl.is_none() && remove, "remove ttl only");
    kani::cover!(value.is_some() && weight.is_some() && ttl.is_some(), "value, weight and ttl");
}
