//! Kani harness for src/cache/config/weight_calculation.rs - C17 (default weights are positive), C08.
#![allow(dead_code, unused_imports)]
use super::Calculation;

#[kani::proof]
fn default_weight_is_positive_and_ttl_adds_the_ticker_entry() {
    let (k, v): (u64, u64) = (kani::any(), kani::any());
    let without = Calculation::perform(&k, &v, false);
    let with = Calculation::perform(&k, &v, true);
    assert!(without > 0);
    assert!(with == without + Calculation::ttl_ticker_entry_size() as i64);
    assert!(Calculation::ttl_ticker_entry_size() == 24);
}
