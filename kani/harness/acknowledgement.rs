//! Kani harnesses for src/cache/command/acknowledgement.rs (child module `verif_kani`) - C12.
//!
//! Shared cells: done (AtomicBool), status (Mutex), waker slot (Mutex).  Invariant
//!     J  ==  done  ==>  status != Pending
//! `point(handle, k)` is called (instrumentation X2) before the first and after every top-level
//! statement of the real `CommandAcknowledgementHandle::done`; no lock is held at those points, so
//! running a complete `poll` there on the same thread is a faithful schedule of a concurrent poller.
#![allow(dead_code, unused_imports, static_mut_refs)]
use std::future::Future;
use std::pin::Pin;
use std::sync::atomic::{AtomicBool, Ordering};
use std::sync::Arc;
use std::task::{Context, Poll, RawWaker, RawWakerVTable, Waker};

use parking_lot::Mutex;

use super::{CommandAcknowledgement, CommandAcknowledgementHandle, WakerState};
use crate::cache::command::{CommandStatus, RejectionReason};
use crate::verif_stubs::verif_harness;

// ---- a waker that counts wake-ups; two distinguishable wakers (data pointer 1 / 2) ----------------
static mut WAKES: [u32; 3] = [0; 3];
fn vt_clone(p: *const ()) -> RawWaker { RawWaker::new(p, &VTABLE) }
fn vt_wake(p: *const ()) { unsafe { WAKES[p as usize] += 1; } }
fn vt_drop(_p: *const ()) {}
static VTABLE: RawWakerVTable = RawWakerVTable::new(vt_clone, vt_wake, vt_wake, vt_drop);
fn waker(tag: usize) -> Waker { unsafe { Waker::from_raw(RawWaker::new(tag as *const (), &VTABLE)) } }
fn wakes(tag: usize) -> u32 { unsafe { WAKES[tag] } }

pub(crate) fn any_status() -> CommandStatus {
    let c: u8 = kani::any();
    kani::assume(c < 7);
    match c {
        0 => CommandStatus::Pending,
        1 => CommandStatus::Accepted,
        2 => CommandStatus::Rejected(RejectionReason::EnoughSpaceIsNotAvailableAndKeyFailedToEvictOthers),
        3 => CommandStatus::Rejected(RejectionReason::KeyWeightIsGreaterThanCacheWeight),
        4 => CommandStatus::Rejected(RejectionReason::KeyDoesNotExist),
        5 => CommandStatus::Rejected(RejectionReason::KeyAlreadyExists),
        _ => CommandStatus::ShuttingDown,
    }
}
fn handle_with(done: bool, status: CommandStatus, w: Option<Waker>) -> CommandAcknowledgementHandle {
    CommandAcknowledgementHandle { done: AtomicBool::new(done), status: Arc::new(Mutex::new(status)), waker_state: Arc::new(Mutex::new(WakerState { waker: w })) }
}
fn flag(h: &CommandAcknowledgementHandle) -> bool { h.done.load(Ordering::Acquire) }
fn status(h: &CommandAcknowledgementHandle) -> CommandStatus { *h.status.lock() }
fn j(h: &CommandAcknowledgementHandle) -> bool { !flag(h) || status(h) != CommandStatus::Pending }
fn poll_once(h: &CommandAcknowledgementHandle, tag: usize) -> Poll<CommandStatus> {
    let w = waker(tag);
    let mut cx = Context::from_waker(&w);
    let mut r = h;
    Pin::new(&mut r).poll(&mut cx)
}

// ---- interference points ------------------------------------------------------------------------
static mut MODE: u8 = 0;          // 0: nothing, 1: assert J at every point, 2: run one poll at point POLL_AT
static mut POLL_AT: u32 = u32::MAX;
static mut POINTS_SEEN: u32 = 0;
static mut POLLED: Option<Poll<CommandStatus>> = None;
pub(crate) fn point(h: &CommandAcknowledgementHandle, k: u32) {
    unsafe {
        POINTS_SEEN += 1;
        if MODE == 1 {
            assert!(j(h), "J violated at an interference point of done(): the flag is set while the status is still Pending");
        } else if MODE == 2 && k == POLL_AT {
            POLLED = Some(poll_once(h, 1));
        }
    }
}

// ---- interference points inside poll (X2b) ---------------------------------------------------------
// The worker's done(s) performs, in this order, A1: status := s, A2: flag := true, A3: wake the registered waker
// (kani:ack/done_keeps_j_at_every_point checks A1 before A2 on the real done()). While a poll is between two of its statements
// it may hold the waker lock, so A3 cannot run there, but A1 and A2 can. ENV_STEPS_AT[k] = how many of {A1, A2} the environment
// performs at point k of poll.
static mut ENV_ON: bool = false;
static mut ENV_STATUS: CommandStatus = CommandStatus::Accepted;
static mut ENV_PROGRESS: u8 = 0;                 // 0: nothing yet, 1: A1 done, 2: A1 and A2 done
static mut ENV_STEPS_AT: [u8; 8] = [0; 8];
static mut POLL_POINTS_SEEN: u32 = 0;
pub(crate) fn poll_point(h: &CommandAcknowledgementHandle, k: usize) {
    unsafe {
        POLL_POINTS_SEEN += 1;
        if !ENV_ON || k >= 8 { return; }
        let mut n = ENV_STEPS_AT[k];
        while n > 0 && ENV_PROGRESS < 2 {
            if ENV_PROGRESS == 0 { *h.status.lock() = ENV_STATUS; } else { h.done.store(true, Ordering::Release); }
            ENV_PROGRESS += 1;
            n -= 1;
        }
    }
}

// ---- obligations --------------------------------------------------------------------------------
verif_harness! {
    fn constructors_satisfy_j() {
        let a = CommandAcknowledgement::new();
        assert!(!flag(a.handle()) && status(a.handle()) == CommandStatus::Pending && j(a.handle()));
        let b = CommandAcknowledgement::accepted();
        assert!(flag(b.handle()) && status(b.handle()) == CommandStatus::Accepted);
        let s = any_status();
        if let CommandStatus::Rejected(reason) = s {
            let c = CommandAcknowledgement::rejected(reason);
            assert!(flag(c.handle()) && status(c.handle()) == s && j(c.handle()));
            assert!(poll_once(c.handle(), 1) == Poll::Ready(s));     // answered on the spot
        }
        assert!(poll_once(b.handle(), 1) == Poll::Ready(CommandStatus::Accepted));
        assert!(poll_once(a.handle(), 1) == Poll::Pending);
    }
}

verif_harness! {
    fn done_keeps_j_at_every_point() {
        let s = any_status();
        kani::assume(s != CommandStatus::Pending);             // the worker never completes a command with Pending
        let h = handle_with(false, CommandStatus::Pending, if kani::any() { Some(waker(1)) } else { None });
        unsafe { MODE = 1; }
        h.done(s);
        unsafe { MODE = 0; assert!(POINTS_SEEN >= 2); }        // the instrumentation is really there
        assert!(flag(&h) && status(&h) == s);                   // resolves to the real outcome
    }
}

verif_harness! {
    fn done_through_acknowledgement() {
        let s = any_status();
        kani::assume(s != CommandStatus::Pending);
        let a = CommandAcknowledgement::new();
        a.done(s);
        assert!(flag(a.handle()) && status(a.handle()) == s);
        assert!(poll_once(a.handle(), 1) == Poll::Ready(s));
        assert!(poll_once(a.handle(), 2) == Poll::Ready(s));   // the same status on every later poll
    }
}

verif_harness! {
    fn poll_from_any_j_state() {
        let d: bool = kani::any();
        let s = any_status();
        kani::assume(!d || s != CommandStatus::Pending);        // J
        let slot: u8 = kani::any();
        kani::assume(slot < 3);
        let h = handle_with(d, s, match slot { 0 => None, 1 => Some(waker(1)), _ => Some(waker(2)) });
        let r = poll_once(&h, 1);
        match r {
            Poll::Ready(x) => { assert!(d && x == s && x != CommandStatus::Pending); }
            Poll::Pending => { assert!(!d); }
        }
        assert!(r.is_ready() == d);
        // the most recent poller's waker is the registered one
        {
            let g = h.waker_state.lock();
            assert!(g.waker.is_some() && g.waker.as_ref().unwrap().will_wake(&waker(1)));
        }
        assert!(flag(&h) == d && status(&h) == s);             // poll changes neither flag nor status
        let r2 = poll_once(&h, 1);
        assert!(r2 == r);
        kani::cover!(slot == 2 && !d, "waker replaced between polls");
    }
}

verif_harness! {
    fn no_lost_wakeup() {
        // one complete poll (waker 1) runs at an arbitrary interference point of done(s), or before it
        let s = any_status();
        kani::assume(s != CommandStatus::Pending);
        let h = handle_with(false, CommandStatus::Pending, if kani::any() { Some(waker(2)) } else { None });
        let at: u32 = kani::any();
        kani::assume(at <= 8);
        unsafe { MODE = 2; POLL_AT = at; }
        h.done(s);
        let polled = unsafe { MODE = 0; POLLED };
        match polled {
            Some(Poll::Ready(x)) => { assert!(x == s); }       // never the placeholder, always the real outcome
            Some(Poll::Pending) => { assert!(wakes(1) >= 1); }  // the task that polled before completion is woken afterwards
            None => { }                                         // `at` beyond the last point: no poll happened
        }
        kani::cover!(matches!(polled, Some(Poll::Pending)), "poll before completion");
        kani::cover!(matches!(polled, Some(Poll::Ready(_))), "poll after completion");
        assert!(poll_once(&h, 1) == Poll::Ready(s));
    }
}

verif_harness! {
    fn earlier_poller_is_woken() {
        // poll first (registers waker 1), then done(s): exactly the registered waker is woken
        let s = any_status();
        kani::assume(s != CommandStatus::Pending);
        let h = handle_with(false, CommandStatus::Pending, None);
        assert!(poll_once(&h, 1) == Poll::Pending);
        if kani::any() { assert!(poll_once(&h, 2) == Poll::Pending); h.done(s); assert!(wakes(2) >= 1); }
        else { h.done(s); assert!(wakes(1) >= 1); }
    }
}

verif_harness! {
    #[kani::unwind(10)]
    fn poll_is_correct_under_interference() {
        // the worker's status write and flag store land at ARBITRARY points inside one poll (waker 1); then the worker finishes
        let s = any_status();
        kani::assume(s != CommandStatus::Pending);
        let slot: u8 = kani::any();
        kani::assume(slot < 3);
        let h = handle_with(false, CommandStatus::Pending, match slot { 0 => None, 1 => Some(waker(1)), _ => Some(waker(2)) });
        let steps: [u8; 8] = kani::any();
        let mut i = 0;
        while i < 8 { kani::assume(steps[i] <= 2); i += 1; }
        unsafe { ENV_ON = true; ENV_STATUS = s; ENV_PROGRESS = 0; ENV_STEPS_AT = steps; }
        let r = poll_once(&h, 1);
        let progress = unsafe { ENV_ON = false; ENV_PROGRESS };
        unsafe { assert!(POLL_POINTS_SEEN >= 2); }               // the instrumentation is really there
        match r {
            // never the placeholder: a Ready poll carries the status the worker wrote
            Poll::Ready(x) => { assert!(x == s && x != CommandStatus::Pending); assert!(progress == 2); }
            Poll::Pending => {
                // the poller's waker is registered, so the wake-up that ends done() reaches it
                let g = h.waker_state.lock();
                assert!(g.waker.is_some() && g.waker.as_ref().unwrap().will_wake(&waker(1)));
            }
        }
        // the worker finishes whatever is left of done(): A1, A2 (if still due), then A3
        if progress == 0 { *h.status.lock() = s; }
        if progress <= 1 { h.done.store(true, Ordering::Release); }
        if let Some(w) = &h.waker_state.lock().waker { w.wake_by_ref(); }
        if r.is_pending() { assert!(wakes(1) >= 1); }            // no lost wake-up
        assert!(poll_once(&h, 1) == Poll::Ready(s));            // and every later poll gives the real status
        kani::cover!(r.is_pending() && progress == 2, "flag set during the poll, after its flag check");
        kani::cover!(r.is_ready(), "flag set during the poll, before its flag check");
        kani::cover!(r.is_pending() && progress == 1, "status written during the poll, flag not yet");
    }
}
