//! Harness helpers for src/cache/lfu/doorkeeper.rs (child module `verif_kani`).
#![allow(dead_code, unused_imports)]
use super::DoorKeeper;

trait SetFalsePositive { fn verif_set_false_positive(&mut self, v: Option<u64>); }
impl SetFalsePositive for bloomfilter::Bloom<u64> { fn verif_set_false_positive(&mut self, _v: Option<u64>) {} }   // real crate: no-op (native replay only)

/// an empty doorkeeper that may answer `has` = true for one arbitrary never-added hash (a false positive)
pub(crate) fn arbitrary_doorkeeper() -> DoorKeeper {
    let mut d = DoorKeeper::new(4, 0.01);
    d.bloom.verif_set_false_positive(kani::any());
    d
}

#[kani::proof]
fn add_if_missing_then_has() {
    let mut d = arbitrary_doorkeeper();
    let (h, g): (u64, u64) = (kani::any(), kani::any());
    let had = d.has(&h);
    let had_g = d.has(&g);
    let added = d.add_if_missing(&h);
    assert!(added == !had);
    assert!(d.has(&h));                    // no false negatives
    if had_g { assert!(d.has(&g)); }       // adding never removes
    d.clear();
}
