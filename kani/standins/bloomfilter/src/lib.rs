//! Verification stand-in for bloomfilter 1.0.9 (API subset used by tinylfu-cached's DoorKeeper).
//! ASSUMED contract of the dependency, given executably: no false negatives; `check` of an item
//! never `set` answers false unless it is the (harness-chosen) false-positive item; `clear`
//! forgets every item.  Four slots, no heap; a fifth distinct item panics.
use std::marker::PhantomData;
pub struct Bloom<T: ?Sized> { items: [Option<u64>; 4], false_positive_for: Option<u64>, _t: PhantomData<T> }
pub trait AsU64 { fn as_u64(&self) -> u64; }
impl AsU64 for u64 { fn as_u64(&self) -> u64 { *self } }
impl<T: AsU64 + ?Sized> Bloom<T> {
    pub fn new_for_fp_rate(items_count: usize, _fp_p: f64) -> Self {
        assert!(items_count > 0);
        Bloom { items: [None; 4], false_positive_for: None, _t: PhantomData }
    }
    /// verification-only: choose one item for which `check` answers true although it was never set
    pub fn verif_set_false_positive(&mut self, v: Option<u64>) { self.false_positive_for = v; }
    fn has(&self, v: u64) -> bool {
        self.items[0] == Some(v) || self.items[1] == Some(v) || self.items[2] == Some(v) || self.items[3] == Some(v)
    }
    pub fn set(&mut self, item: &T) {
        let v = item.as_u64();
        if self.has(v) { return; }
        let mut i = 0;
        while i < 4 { if self.items[i].is_none() { self.items[i] = Some(v); return; } i += 1; }
        panic!("bloomfilter stand-in capacity exceeded");
    }
    pub fn check(&self, item: &T) -> bool { let v = item.as_u64(); self.has(v) || self.false_positive_for == Some(v) }
    pub fn clear(&mut self) { self.items = [None; 4]; self.false_positive_for = None; }   // a cleared filter has no bit set: no positives at all
    pub fn number_of_items(&self) -> usize { self.items.iter().filter(|x| x.is_some()).count() }
}
