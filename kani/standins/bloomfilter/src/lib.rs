//! Verification stand-in for bloomfilter 1.0.9 (API subset used by tinylfu-cached's DoorKeeper).
//! ASSUMED contract of the dependency, given executably: no false negatives; `check` of an item
//! never `set` answers false unless it is the (harness-chosen) `false_positive_for` item;
//! `clear` forgets every item.
use std::marker::PhantomData;
pub struct Bloom<T: ?Sized> { items: Vec<u64>, pub false_positive_for: Option<u64>, _t: PhantomData<T> }
pub trait AsU64 { fn as_u64(&self) -> u64; }
impl AsU64 for u64 { fn as_u64(&self) -> u64 { *self } }
impl<T: AsU64 + ?Sized> Bloom<T> {
    pub fn new_for_fp_rate(items_count: usize, _fp_p: f64) -> Self {
        assert!(items_count > 0);
        Bloom { items: Vec::new(), false_positive_for: None, _t: PhantomData }
    }
    fn has(&self, v: u64) -> bool {
        let mut i = 0;
        while i < self.items.len() { if self.items[i] == v { return true; } i += 1; }
        false
    }
    pub fn set(&mut self, item: &T) { let v = item.as_u64(); if !self.has(v) { self.items.push(v); } }
    pub fn check(&self, item: &T) -> bool { let v = item.as_u64(); self.has(v) || self.false_positive_for == Some(v) }
    pub fn clear(&mut self) { self.items.clear(); }
    pub fn number_of_items(&self) -> usize { self.items.len() }
}
