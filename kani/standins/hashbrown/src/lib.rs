//! Verification stand-in for hashbrown 0.13.2 (HashMap API subset used by tinylfu-cached's TTLTicker).
//!
//! ASSUMED contract of the dependency, given executably: a map with at most one entry per key;
//! `retain` visits every entry exactly once and keeps exactly those for which the closure
//! returns true.  Storage is four named slots (no heap object, no loop, no symbolic address for
//! CBMC); inserting a fifth key panics ("stand-in capacity exceeded").
use std::borrow::Borrow;

pub const SLOTS: usize = 4;

pub struct HashMap<K, V> {
    s0: Option<(K, V)>,
    s1: Option<(K, V)>,
    s2: Option<(K, V)>,
    s3: Option<(K, V)>,
}

impl<K: Eq, V> HashMap<K, V> {
    pub fn new() -> Self { HashMap { s0: None, s1: None, s2: None, s3: None } }
    fn slot(&self, i: usize) -> &Option<(K, V)> {
        match i { 0 => &self.s0, 1 => &self.s1, 2 => &self.s2, 3 => &self.s3, _ => panic!("hashbrown stand-in: slot out of range") }
    }
    fn slot_mut(&mut self, i: usize) -> &mut Option<(K, V)> {
        match i { 0 => &mut self.s0, 1 => &mut self.s1, 2 => &mut self.s2, 3 => &mut self.s3, _ => panic!("hashbrown stand-in: slot out of range") }
    }
    fn holds<Q: ?Sized + Eq>(&self, i: usize, key: &Q) -> bool where K: Borrow<Q> {
        match self.slot(i) { Some(e) => e.0.borrow() == key, None => false }
    }
    fn position<Q: ?Sized + Eq>(&self, key: &Q) -> Option<usize> where K: Borrow<Q> {
        if self.holds(0, key) { return Some(0); }
        if self.holds(1, key) { return Some(1); }
        if self.holds(2, key) { return Some(2); }
        if self.holds(3, key) { return Some(3); }
        None
    }
    fn free_slot(&self) -> Option<usize> {
        if self.s0.is_none() { return Some(0); }
        if self.s1.is_none() { return Some(1); }
        if self.s2.is_none() { return Some(2); }
        if self.s3.is_none() { return Some(3); }
        None
    }
    /// verification-only: place an entry in a chosen slot
    pub fn verif_insert_at(&mut self, slot: usize, key: K, value: V) {
        assert!(self.position(&key).is_none());
        assert!(self.slot(slot).is_none());
        *self.slot_mut(slot) = Some((key, value));
    }
    pub fn insert(&mut self, key: K, value: V) -> Option<V> {
        match self.position(&key) {
            Some(i) => Some(std::mem::replace(&mut self.slot_mut(i).as_mut().unwrap().1, value)),
            None => {
                match self.free_slot() {
                    Some(i) => { *self.slot_mut(i) = Some((key, value)); }
                    None => panic!("hashbrown stand-in capacity exceeded"),
                }
                None
            }
        }
    }
    pub fn remove<Q: ?Sized + Eq>(&mut self, key: &Q) -> Option<V> where K: Borrow<Q> {
        match self.position(key) { Some(i) => self.slot_mut(i).take().map(|e| e.1), None => None }
    }
    pub fn get<Q: ?Sized + Eq>(&self, key: &Q) -> Option<&V> where K: Borrow<Q> {
        match self.position(key) { Some(i) => self.slot(i).as_ref().map(|e| &e.1), None => None }
    }
    pub fn contains_key<Q: ?Sized + Eq>(&self, key: &Q) -> bool where K: Borrow<Q> { self.position(key).is_some() }
    pub fn len(&self) -> usize {
        self.s0.is_some() as usize + self.s1.is_some() as usize + self.s2.is_some() as usize + self.s3.is_some() as usize
    }
    pub fn is_empty(&self) -> bool { self.len() == 0 }
    pub fn clear(&mut self) { self.s0 = None; self.s1 = None; self.s2 = None; self.s3 = None; }
    fn retain_slot<F: FnMut(&K, &mut V) -> bool>(s: &mut Option<(K, V)>, f: &mut F) {
        let keep = match s { Some(e) => f(&e.0, &mut e.1), None => true };
        if !keep { *s = None; }
    }
    pub fn retain<F: FnMut(&K, &mut V) -> bool>(&mut self, mut f: F) {
        Self::retain_slot(&mut self.s0, &mut f);
        Self::retain_slot(&mut self.s1, &mut f);
        Self::retain_slot(&mut self.s2, &mut f);
        Self::retain_slot(&mut self.s3, &mut f);
    }
}
impl<K: Eq, V> Default for HashMap<K, V> { fn default() -> Self { Self::new() } }
