//! Verification stand-in for hashbrown 0.13.2 (HashMap API subset used by tinylfu-cached's TTLTicker).
//! An association list: at most one entry per key; `retain` visits every entry exactly once.
//! This is an ASSUMED contract of the dependency, given executably.
use std::borrow::Borrow;

pub struct HashMap<K, V> {
    entries: Vec<(K, V)>,
}

impl<K: Eq, V> HashMap<K, V> {
    pub fn new() -> Self { HashMap { entries: Vec::new() } }
    fn position<Q: ?Sized + Eq>(&self, key: &Q) -> Option<usize> where K: Borrow<Q> {
        let mut i = 0;
        while i < self.entries.len() {
            if self.entries[i].0.borrow() == key { return Some(i); }
            i += 1;
        }
        None
    }
    pub fn insert(&mut self, key: K, value: V) -> Option<V> {
        match self.position(&key) {
            Some(i) => Some(std::mem::replace(&mut self.entries[i].1, value)),
            None => { self.entries.push((key, value)); None }
        }
    }
    pub fn remove<Q: ?Sized + Eq>(&mut self, key: &Q) -> Option<V> where K: Borrow<Q> {
        match self.position(key) { Some(i) => Some(self.entries.remove(i).1), None => None }
    }
    pub fn get<Q: ?Sized + Eq>(&self, key: &Q) -> Option<&V> where K: Borrow<Q> {
        match self.position(key) { Some(i) => Some(&self.entries[i].1), None => None }
    }
    pub fn contains_key<Q: ?Sized + Eq>(&self, key: &Q) -> bool where K: Borrow<Q> { self.position(key).is_some() }
    pub fn len(&self) -> usize { self.entries.len() }
    pub fn is_empty(&self) -> bool { self.entries.is_empty() }
    pub fn clear(&mut self) { self.entries.clear(); }
    pub fn retain<F: FnMut(&K, &mut V) -> bool>(&mut self, mut f: F) {
        let mut i = 0;
        while i < self.entries.len() {
            let keep = { let e = &mut self.entries[i]; f(&e.0, &mut e.1) };
            if keep { i += 1; } else { self.entries.remove(i); }
        }
    }
    pub fn iter(&self) -> impl Iterator<Item = (&K, &V)> { self.entries.iter().map(|e| (&e.0, &e.1)) }
}
impl<K: Eq, V> Default for HashMap<K, V> { fn default() -> Self { Self::new() } }
