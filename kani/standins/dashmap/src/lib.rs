//! Verification stand-in for dashmap 5.4.0 (API subset used by tinylfu-cached).
//!
//! ASSUMED contract of the dependency, given executably: a map with at most one entry per key;
//! every call is one atomic step; guards (`Ref`, `RefMut`, `RefMulti`) exclude writers / everybody
//! while alive.  One logical shard; a reader/writer count replaces the shard RwLock, and taking a
//! conflicting lock on the same thread PANICS (a real DashMap would self-deadlock).
//!
//! Storage is a fixed table of `capacity` slots (the `capacity` argument of
//! `with_capacity_and_shard_amount`, at least 1) so that every loop has a constant trip count for
//! CBMC; inserting into a full table panics ("stand-in capacity exceeded") - harnesses must stay
//! inside the capacity they construct.  Iteration visits occupied slots in slot order; harnesses
//! obtain other orders by placing entries in different slots.
use std::cell::{Cell, UnsafeCell};
use std::collections::hash_map::RandomState;
use std::hash::Hash;
use std::marker::PhantomData;
use std::ops::{Deref, DerefMut};

pub struct DashMap<K, V, S = RandomState> {
    slots: UnsafeCell<Vec<Option<(K, V)>>>,
    state: Cell<isize>, // >0 readers, -1 writer
    _s: PhantomData<S>,
}
unsafe impl<K: Send, V: Send, S> Send for DashMap<K, V, S> {}
unsafe impl<K: Send + Sync, V: Send + Sync, S> Sync for DashMap<K, V, S> {}

impl<K: Eq + Hash, V> DashMap<K, V, RandomState> {
    pub fn new() -> Self { Self::with_capacity_and_shard_amount(4, 2) }
    pub fn with_capacity_and_shard_amount(capacity: usize, shard_amount: usize) -> Self {
        assert!(shard_amount > 1);
        assert!(shard_amount.is_power_of_two());
        let cap = if capacity == 0 { 1 } else { capacity };
        let mut v = Vec::with_capacity(cap);
        let mut i = 0;
        while i < cap { v.push(None); i += 1; }
        DashMap { slots: UnsafeCell::new(v), state: Cell::new(0), _s: PhantomData }
    }
}
impl<K: Eq + Hash, V, S> DashMap<K, V, S> {
    fn lock_shared(&self) { let s = self.state.get(); if s < 0 { panic!("dashmap stand-in: shared lock while exclusively locked (self-deadlock)"); } self.state.set(s + 1); }
    fn unlock_shared(&self) { self.state.set(self.state.get() - 1); }
    fn lock_exclusive(&self) { if self.state.get() != 0 { panic!("dashmap stand-in: exclusive lock while locked (self-deadlock)"); } self.state.set(-1); }
    fn unlock_exclusive(&self) { self.state.set(0); }
    #[allow(clippy::mut_from_ref)]
    fn table(&self) -> &mut Vec<Option<(K, V)>> { unsafe { &mut *self.slots.get() } }
    fn position(&self, key: &K) -> Option<usize> {
        let t = self.table();
        let mut i = 0;
        while i < t.len() {
            if let Some(e) = &t[i] { if e.0 == *key { return Some(i); } }
            i += 1;
        }
        None
    }
    fn free_slot(&self) -> Option<usize> {
        let t = self.table();
        let mut i = 0;
        while i < t.len() { if t[i].is_none() { return Some(i); } i += 1; }
        None
    }
    /// verification-only: place an entry in a chosen slot (lets a harness choose the iteration order)
    pub fn verif_insert_at(&self, slot: usize, key: K, value: V) {
        self.lock_exclusive();
        assert!(self.position(&key).is_none());
        assert!(self.table()[slot].is_none());
        self.table()[slot] = Some((key, value));
        self.unlock_exclusive();
    }
    pub fn insert(&self, key: K, value: V) -> Option<V> {
        self.lock_exclusive();
        let r = match self.position(&key) {
            Some(i) => { let slot = self.table()[i].as_mut().unwrap(); Some(std::mem::replace(&mut slot.1, value)) }
            None => {
                match self.free_slot() {
                    Some(i) => { self.table()[i] = Some((key, value)); }
                    None => panic!("dashmap stand-in capacity exceeded"),
                }
                None
            }
        };
        self.unlock_exclusive();
        r
    }
    pub fn remove(&self, key: &K) -> Option<(K, V)> {
        self.lock_exclusive();
        let r = match self.position(key) { Some(i) => self.table()[i].take(), None => None };
        self.unlock_exclusive();
        r
    }
    pub fn contains_key(&self, key: &K) -> bool {
        self.lock_shared();
        let r = self.position(key).is_some();
        self.unlock_shared();
        r
    }
    pub fn get<'a>(&'a self, key: &K) -> Option<mapref::one::Ref<'a, K, V, S>> {
        self.lock_shared();
        match self.position(key) {
            Some(i) => { let e = self.table()[i].as_ref().unwrap(); Some(mapref::one::Ref { map: self, k: &e.0, v: &e.1 }) }
            None => { self.unlock_shared(); None }
        }
    }
    pub fn get_mut<'a>(&'a self, key: &K) -> Option<mapref::one::RefMut<'a, K, V, S>> {
        self.lock_exclusive();
        match self.position(key) {
            Some(i) => { let e = self.table()[i].as_mut().unwrap(); Some(mapref::one::RefMut { map: self, k: &e.0, v: &mut e.1 }) }
            None => { self.unlock_exclusive(); None }
        }
    }
    pub fn clear(&self) {
        self.lock_exclusive();
        let t = self.table();
        let mut i = 0;
        while i < t.len() { t[i] = None; i += 1; }
        self.unlock_exclusive();
    }
    pub fn len(&self) -> usize {
        self.lock_shared();
        let t = self.table();
        let (mut i, mut n) = (0, 0);
        while i < t.len() { if t[i].is_some() { n += 1; } i += 1; }
        self.unlock_shared();
        n
    }
    pub fn is_empty(&self) -> bool { self.len() == 0 }
    pub fn iter<'a>(&'a self) -> iter::Iter<'a, K, V, S> { iter::Iter { map: self, next: 0 } }
}

pub mod mapref {
    pub mod one {
        use super::super::*;
        pub struct Ref<'a, K: Eq + Hash, V, S = RandomState> { pub(crate) map: &'a DashMap<K, V, S>, pub(crate) k: *const K, pub(crate) v: *const V }
        impl<'a, K: Eq + Hash, V, S> Ref<'a, K, V, S> {
            pub fn key(&self) -> &K { unsafe { &*self.k } }
            pub fn value(&self) -> &V { unsafe { &*self.v } }
            pub fn pair(&self) -> (&K, &V) { (self.key(), self.value()) }
        }
        impl<'a, K: Eq + Hash, V, S> Deref for Ref<'a, K, V, S> { type Target = V; fn deref(&self) -> &V { self.value() } }
        impl<'a, K: Eq + Hash, V, S> Drop for Ref<'a, K, V, S> { fn drop(&mut self) { self.map.unlock_shared(); } }
        pub struct RefMut<'a, K: Eq + Hash, V, S = RandomState> { pub(crate) map: &'a DashMap<K, V, S>, pub(crate) k: *const K, pub(crate) v: *mut V }
        impl<'a, K: Eq + Hash, V, S> RefMut<'a, K, V, S> {
            pub fn key(&self) -> &K { unsafe { &*self.k } }
            pub fn value(&self) -> &V { unsafe { &*self.v } }
            pub fn value_mut(&mut self) -> &mut V { unsafe { &mut *self.v } }
        }
        impl<'a, K: Eq + Hash, V, S> Deref for RefMut<'a, K, V, S> { type Target = V; fn deref(&self) -> &V { self.value() } }
        impl<'a, K: Eq + Hash, V, S> DerefMut for RefMut<'a, K, V, S> { fn deref_mut(&mut self) -> &mut V { self.value_mut() } }
        impl<'a, K: Eq + Hash, V, S> Drop for RefMut<'a, K, V, S> { fn drop(&mut self) { self.map.unlock_exclusive(); } }
    }
    pub mod multiple {
        use super::super::*;
        pub struct RefMulti<'a, K: Eq + Hash, V, S = RandomState> { pub(crate) map: &'a DashMap<K, V, S>, pub(crate) k: *const K, pub(crate) v: *const V }
        impl<'a, K: Eq + Hash, V, S> RefMulti<'a, K, V, S> {
            pub fn key(&self) -> &K { unsafe { &*self.k } }
            pub fn value(&self) -> &V { unsafe { &*self.v } }
            pub fn pair(&self) -> (&K, &V) { (self.key(), self.value()) }
        }
        impl<'a, K: Eq + Hash, V, S> Deref for RefMulti<'a, K, V, S> { type Target = V; fn deref(&self) -> &V { self.value() } }
        impl<'a, K: Eq + Hash, V, S> Drop for RefMulti<'a, K, V, S> { fn drop(&mut self) { self.map.unlock_shared(); } }
    }
}
pub mod iter {
    use super::*;
    pub struct Iter<'a, K: Eq + Hash, V, S = RandomState> { pub(crate) map: &'a DashMap<K, V, S>, pub(crate) next: usize }
    impl<'a, K: Eq + Hash, V, S> Iterator for Iter<'a, K, V, S> {
        type Item = mapref::multiple::RefMulti<'a, K, V, S>;
        fn next(&mut self) -> Option<Self::Item> {
            let t = self.map.table();
            while self.next < t.len() {
                let i = self.next;
                self.next += 1;
                if let Some(e) = &t[i] {
                    self.map.lock_shared();
                    return Some(mapref::multiple::RefMulti { map: self.map, k: &e.0, v: &e.1 });
                }
            }
            None
        }
    }
}
