//! Verification stand-in for dashmap 5.4.0 (API subset used by tinylfu-cached).
//!
//! ASSUMED contract of the dependency, given executably: a map with at most one entry per key;
//! every call is one atomic step; guards (`Ref`, `RefMut`, `RefMulti`) exclude writers / everybody
//! while alive.  One logical shard; a reader/writer count replaces the shard RwLock, and taking a
//! conflicting lock on the same thread PANICS (a real DashMap would self-deadlock).
//!
//! Storage is four named slots, of which the first min(capacity, 4) are usable (`capacity` is the
//! argument of `with_capacity_and_shard_amount`), so there is no loop and no symbolic address for
//! CBMC; inserting into a full table panics ("stand-in capacity exceeded") - harnesses must stay
//! inside the capacity they construct (at most 3 residents plus one incoming key).  Iteration visits occupied slots in slot order; harnesses
//! obtain other orders by placing entries in different slots.
use std::cell::{Cell, UnsafeCell};
use std::collections::hash_map::RandomState;
use std::hash::Hash;
use std::marker::PhantomData;
use std::ops::{Deref, DerefMut};

pub const SLOTS: usize = 4;

pub struct DashMap<K, V, S = RandomState> {
    // four separately named slots instead of an array or a Vec: every access is at a constant
    // address, so CBMC never has to reason about a symbolic offset into a heap object
    s0: UnsafeCell<Option<(K, V)>>,
    s1: UnsafeCell<Option<(K, V)>>,
    s2: UnsafeCell<Option<(K, V)>>,
    s3: UnsafeCell<Option<(K, V)>>,
    cap: usize,
    state: Cell<isize>, // >0 readers, -1 writer
    _s: PhantomData<S>,
}
unsafe impl<K: Send, V: Send, S> Send for DashMap<K, V, S> {}
unsafe impl<K: Send + Sync, V: Send + Sync, S> Sync for DashMap<K, V, S> {}

impl<K: Eq + Hash, V> DashMap<K, V, RandomState> {
    pub fn new() -> Self { Self::with_capacity_and_shard_amount(SLOTS, 2) }
    pub fn with_capacity_and_shard_amount(capacity: usize, shard_amount: usize) -> Self {
        assert!(shard_amount > 1);
        assert!(shard_amount.is_power_of_two());
        let cap = if capacity == 0 { 1 } else if capacity > SLOTS { SLOTS } else { capacity };
        DashMap { s0: UnsafeCell::new(None), s1: UnsafeCell::new(None), s2: UnsafeCell::new(None), s3: UnsafeCell::new(None),
                  cap, state: Cell::new(0), _s: PhantomData }
    }
}
impl<K: Eq + Hash, V, S> DashMap<K, V, S> {
    fn lock_shared(&self) { let s = self.state.get(); if s < 0 { panic!("dashmap stand-in: shared lock while exclusively locked (self-deadlock)"); } self.state.set(s + 1); }
    fn unlock_shared(&self) { self.state.set(self.state.get() - 1); }
    fn lock_exclusive(&self) { if self.state.get() != 0 { panic!("dashmap stand-in: exclusive lock while locked (self-deadlock)"); } self.state.set(-1); }
    fn unlock_exclusive(&self) { self.state.set(0); }
    #[allow(clippy::mut_from_ref)]
    fn slot(&self, i: usize) -> &mut Option<(K, V)> {
        unsafe {
            match i { 0 => &mut *self.s0.get(), 1 => &mut *self.s1.get(), 2 => &mut *self.s2.get(), 3 => &mut *self.s3.get(),
                      _ => panic!("dashmap stand-in: slot index out of range") }
        }
    }
    fn holds(&self, i: usize, key: &K) -> bool { match self.slot(i) { Some(e) => e.0 == *key, None => false } }
    fn position(&self, key: &K) -> Option<usize> {
        if self.holds(0, key) { return Some(0); }
        if self.cap > 1 && self.holds(1, key) { return Some(1); }
        if self.cap > 2 && self.holds(2, key) { return Some(2); }
        if self.cap > 3 && self.holds(3, key) { return Some(3); }
        None
    }
    fn free_slot(&self) -> Option<usize> {
        if self.slot(0).is_none() { return Some(0); }
        if self.cap > 1 && self.slot(1).is_none() { return Some(1); }
        if self.cap > 2 && self.slot(2).is_none() { return Some(2); }
        if self.cap > 3 && self.slot(3).is_none() { return Some(3); }
        None
    }
    /// verification-only: place an entry in a chosen slot (lets a harness choose the iteration order)
    pub fn verif_insert_at(&self, slot: usize, key: K, value: V) {
        self.lock_exclusive();
        assert!(slot < self.cap);
        assert!(self.position(&key).is_none());
        assert!(self.slot(slot).is_none());
        *self.slot(slot) = Some((key, value));
        self.unlock_exclusive();
    }
    pub fn insert(&self, key: K, value: V) -> Option<V> {
        self.lock_exclusive();
        let r = match self.position(&key) {
            Some(i) => { let e = self.slot(i).as_mut().unwrap(); Some(std::mem::replace(&mut e.1, value)) }
            None => {
                match self.free_slot() {
                    Some(i) => { *self.slot(i) = Some((key, value)); }
                    None => panic!("dashmap stand-in capacity exceeded"),
                }
                None
            }
        };
        self.unlock_exclusive();
        r
    }
    pub fn remove(&self, key: &K) -> Option<(K, V)> {
        self.lock_exclusive();
        let r = match self.position(key) { Some(i) => self.slot(i).take(), None => None };
        self.unlock_exclusive();
        r
    }
    pub fn contains_key(&self, key: &K) -> bool {
        self.lock_shared();
        let r = self.position(key).is_some();
        self.unlock_shared();
        r
    }
    pub fn get<'a>(&'a self, key: &K) -> Option<mapref::one::Ref<'a, K, V, S>> {
        self.lock_shared();
        match self.position(key) {
            Some(i) => { let e = self.slot(i).as_ref().unwrap(); Some(mapref::one::Ref { map: self, k: &e.0, v: &e.1 }) }
            None => { self.unlock_shared(); None }
        }
    }
    pub fn get_mut<'a>(&'a self, key: &K) -> Option<mapref::one::RefMut<'a, K, V, S>> {
        self.lock_exclusive();
        match self.position(key) {
            Some(i) => { let e = self.slot(i).as_mut().unwrap(); Some(mapref::one::RefMut { map: self, k: &e.0, v: &mut e.1 }) }
            None => { self.unlock_exclusive(); None }
        }
    }
    pub fn clear(&self) {
        self.lock_exclusive();
        *self.slot(0) = None; *self.slot(1) = None; *self.slot(2) = None; *self.slot(3) = None;
        self.unlock_exclusive();
    }
    pub fn len(&self) -> usize {
        self.lock_shared();
        let n = self.slot(0).is_some() as usize + self.slot(1).is_some() as usize + self.slot(2).is_some() as usize + self.slot(3).is_some() as usize;
        self.unlock_shared();
        n
    }
    pub fn is_empty(&self) -> bool { self.len() == 0 }
    pub fn iter<'a>(&'a self) -> iter::Iter<'a, K, V, S> { iter::Iter { map: self, next: 0 } }
    /// the entry API (exclusive lock on the map while the entry is alive)
    pub fn entry<'a>(&'a self, key: K) -> mapref::entry::Entry<'a, K, V, S> {
        self.lock_exclusive();
        match self.position(&key) {
            Some(i) => mapref::entry::Entry::Occupied(mapref::entry::OccupiedEntry { map: self, slot: i, key }),
            None => mapref::entry::Entry::Vacant(mapref::entry::VacantEntry { map: self, key }),
        }
    }
}

pub mod mapref {
    pub mod one {
        use super::super::*;
        pub struct Ref<'a, K: Eq + Hash, V, S = RandomState> { pub(crate) map: &'a DashMap<K, V, S>, pub(crate) k: *const K, pub(crate) v: *const V }
        impl<'a, K: Eq + Hash, V, S> Ref<'a, K, V, S> {
            pub fn key(&self) -> &K { unsafe { &*self.k } }
            pub fn value(&self) -> &V { unsafe { &*self.v } }
            pub fn pair(&self) -> (&K, &V) { (self.key(), self.value()) }
        }
        impl<'a, K: Eq + Hash, V, S> Deref for Ref<'a, K, V, S> { type Target = V; fn deref(&self) -> &V { self.value() } }
        impl<'a, K: Eq + Hash, V, S> Drop for Ref<'a, K, V, S> { fn drop(&mut self) { self.map.unlock_shared(); } }
        pub struct RefMut<'a, K: Eq + Hash, V, S = RandomState> { pub(crate) map: &'a DashMap<K, V, S>, pub(crate) k: *const K, pub(crate) v: *mut V }
        impl<'a, K: Eq + Hash, V, S> RefMut<'a, K, V, S> {
            pub fn key(&self) -> &K { unsafe { &*self.k } }
            pub fn value(&self) -> &V { unsafe { &*self.v } }
            pub fn value_mut(&mut self) -> &mut V { unsafe { &mut *self.v } }
        }
        impl<'a, K: Eq + Hash, V, S> Deref for RefMut<'a, K, V, S> { type Target = V; fn deref(&self) -> &V { self.value() } }
        impl<'a, K: Eq + Hash, V, S> DerefMut for RefMut<'a, K, V, S> { fn deref_mut(&mut self) -> &mut V { self.value_mut() } }
        impl<'a, K: Eq + Hash, V, S> Drop for RefMut<'a, K, V, S> { fn drop(&mut self) { self.map.unlock_exclusive(); } }
    }
    pub mod entry {
        use super::super::*;
        pub enum Entry<'a, K: Eq + Hash, V, S = RandomState> { Occupied(OccupiedEntry<'a, K, V, S>), Vacant(VacantEntry<'a, K, V, S>) }
        pub struct OccupiedEntry<'a, K: Eq + Hash, V, S = RandomState> { pub(crate) map: &'a DashMap<K, V, S>, pub(crate) slot: usize, pub(crate) key: K }
        impl<'a, K: Eq + Hash, V, S> OccupiedEntry<'a, K, V, S> {
            pub fn key(&self) -> &K { &self.map.slot(self.slot).as_ref().unwrap().0 }
            pub fn get(&self) -> &V { &self.map.slot(self.slot).as_ref().unwrap().1 }
            pub fn get_mut(&mut self) -> &mut V { &mut self.map.slot(self.slot).as_mut().unwrap().1 }
            pub fn insert(&mut self, value: V) -> V { std::mem::replace(&mut self.map.slot(self.slot).as_mut().unwrap().1, value) }
            pub fn remove(self) -> V { self.map.slot(self.slot).take().unwrap().1 }
        }
        impl<'a, K: Eq + Hash, V, S> Drop for OccupiedEntry<'a, K, V, S> { fn drop(&mut self) { self.map.unlock_exclusive(); } }
        pub struct VacantEntry<'a, K: Eq + Hash, V, S = RandomState> { pub(crate) map: &'a DashMap<K, V, S>, pub(crate) key: K }
        impl<'a, K: Eq + Hash, V, S> VacantEntry<'a, K, V, S> {
            pub fn key(&self) -> &K { &self.key }
        }
        impl<'a, K: Eq + Hash, V, S> Drop for VacantEntry<'a, K, V, S> { fn drop(&mut self) { self.map.unlock_exclusive(); } }
    }
    pub mod multiple {
        use super::super::*;
        pub struct RefMulti<'a, K: Eq + Hash, V, S = RandomState> { pub(crate) map: &'a DashMap<K, V, S>, pub(crate) k: *const K, pub(crate) v: *const V }
        impl<'a, K: Eq + Hash, V, S> RefMulti<'a, K, V, S> {
            pub fn key(&self) -> &K { unsafe { &*self.k } }
            pub fn value(&self) -> &V { unsafe { &*self.v } }
            pub fn pair(&self) -> (&K, &V) { (self.key(), self.value()) }
        }
        impl<'a, K: Eq + Hash, V, S> Deref for RefMulti<'a, K, V, S> { type Target = V; fn deref(&self) -> &V { self.value() } }
        impl<'a, K: Eq + Hash, V, S> Drop for RefMulti<'a, K, V, S> { fn drop(&mut self) { self.map.unlock_shared(); } }
    }
}
pub mod iter {
    use super::*;
    pub struct Iter<'a, K: Eq + Hash, V, S = RandomState> { pub(crate) map: &'a DashMap<K, V, S>, pub(crate) next: usize }
    impl<'a, K: Eq + Hash, V, S> Iterator for Iter<'a, K, V, S> {
        type Item = mapref::multiple::RefMulti<'a, K, V, S>;
        fn next(&mut self) -> Option<Self::Item> {
            while self.next < self.map.cap {
                let i = self.next;
                self.next += 1;
                if let Some(e) = self.map.slot(i).as_ref() {
                    self.map.lock_shared();
                    return Some(mapref::multiple::RefMulti { map: self.map, k: &e.0, v: &e.1 });
                }
            }
            None
        }
    }
}
