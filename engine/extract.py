#!/usr/bin/env python3
"""Lexer-aware extractor for Rust source.

Finds items of /repo's *current* source by (file, impl-header regex, fn name), copies their text
byte for byte, and applies the stated mechanical rewrite rules (T1..T6) so the text can be placed
inside a verus!{} block.  Anything it cannot locate or rewrite raises ExtractError, which the
driver reports as UNDECIDED (exit 2) - never as a violation.
"""
import hashlib
import re


class ExtractError(Exception):
    pass


# --------------------------------------------------------------------------------------------
# Lexing helpers: produce a "mask" string of the same length as the source in which the content
# of comments, strings and char literals is replaced by spaces, so brace matching and regex
# searches on the mask see code only while offsets stay valid for the original text.
# --------------------------------------------------------------------------------------------
def code_mask(src: str, keep_strings=False) -> str:
    out = list(src)
    i, n = 0, len(src)

    def blank(a, b):
        for k in range(a, b):
            if out[k] != '\n':
                out[k] = ' '

    while i < n:
        c = src[i]
        if c == '/' and i + 1 < n and src[i + 1] == '/':
            j = src.find('\n', i)
            j = n if j < 0 else j
            blank(i, j)
            i = j
        elif c == '/' and i + 1 < n and src[i + 1] == '*':
            depth, j = 1, i + 2
            while j < n and depth:
                if src.startswith('/*', j):
                    depth += 1
                    j += 2
                elif src.startswith('*/', j):
                    depth -= 1
                    j += 2
                else:
                    j += 1
            blank(i, j)
            i = j
        elif c == '"' or (c in 'rb' and re.match(r'(?:b?r#*"|b")', src[i:i + 12])
                          and (i == 0 or not (src[i - 1].isalnum() or src[i - 1] == '_'))):
            m = re.match(r'b?r(#*)"', src[i:])
            if m:
                term = '"' + m.group(1)
                start = i + m.end()
                j = src.find(term, start)
                if j < 0:
                    raise ExtractError('unterminated raw string')
                end = j + len(term)
            else:
                start = i + (2 if c == 'b' else 1)
                j = start
                while j < n and src[j] != '"':
                    j += 2 if src[j] == '\\' else 1
                end = j + 1
            if not keep_strings:
                blank(start, end - 1)
            i = end
        elif c == "'":
            # char literal or lifetime
            m = re.match(r"'(?:\\(?:x[0-9a-fA-F]{2}|u\{[0-9a-fA-F_]+\}|.)|[^\\'])'", src[i:])
            if m:
                blank(i + 1, i + m.end() - 1)
                i += m.end()
            else:
                i += 1
        else:
            i += 1
    return ''.join(out)


def match_brace(mask: str, open_idx: int, open_ch='{', close_ch='}') -> int:
    """index of the bracket closing the one at open_idx"""
    assert mask[open_idx] == open_ch, (mask[open_idx - 20:open_idx + 20], open_ch)
    depth = 0
    for k in range(open_idx, len(mask)):
        ch = mask[k]
        if ch == open_ch:
            depth += 1
        elif ch == close_ch:
            depth -= 1
            if depth == 0:
                return k
    raise ExtractError('unbalanced %s at %d' % (open_ch, open_idx))


def depth_at(mask: str, upto: int, start: int = 0) -> int:
    d = 0
    for k in range(start, upto):
        if mask[k] == '{':
            d += 1
        elif mask[k] == '}':
            d -= 1
    return d


def first_open_brace(mask: str, start: int) -> int:
    """first `{` at paren/bracket depth 0 after start"""
    d = 0
    for k in range(start, len(mask)):
        ch = mask[k]
        if ch in '([':
            d += 1
        elif ch in ')]':
            d -= 1
        elif ch == '{' and d == 0:
            return k
        elif ch == ';' and d == 0:
            return -1
    return -1


# --------------------------------------------------------------------------------------------
class Source:
    def __init__(self, path: str):
        self.path = path
        with open(path, encoding='utf-8') as f:
            self.text = f.read()
        self.mask = code_mask(self.text)

    def line_of(self, idx: int) -> int:
        return self.text.count('\n', 0, idx) + 1

    # ---- impl blocks at top level (depth 0), i.e. never inside `mod tests { }`
    def impl_blocks(self, header_re: str):
        res = []
        rx = re.compile(header_re)
        for m in re.finditer(r'(?m)^(?:unsafe\s+)?impl\b', self.mask):
            if depth_at(self.mask, m.start()) != 0:
                continue
            ob = first_open_brace(self.mask, m.start())
            if ob < 0:
                continue
            header = ' '.join(self.text[m.start():ob].split())
            if rx.search(header):
                res.append((m.start(), ob, match_brace(self.mask, ob), header))
        return res

    def find_fn(self, impl_re, name: str, nth: int = 0):
        """returns dict(start, body_open, end, header) for `fn name` in the impl block matching
        impl_re (or a top-level free fn if impl_re is None/'')"""
        cands = []
        if impl_re:
            blocks = self.impl_blocks(impl_re)
            if not blocks:
                raise ExtractError('%s: no impl block matches /%s/' % (self.path, impl_re))
        else:
            blocks = [(0, -1, len(self.text), '')]
        for (bs, bo, be, header) in blocks:
            for m in re.finditer(r'\bfn\s+' + re.escape(name) + r'\b', self.mask[bo + 1:be]):
                at = bo + 1 + m.start()
                want_depth = 0 if bo >= 0 else 0
                if depth_at(self.mask, at, bo + 1) != want_depth:
                    continue
                # walk back over visibility / qualifiers on the same item
                ls = at
                pre = re.search(r'((?:pub(?:\s*\([^)]*\))?\s+)?(?:const\s+)?(?:async\s+)?(?:unsafe\s+)?)$', self.mask[:at])
                if pre:
                    ls = at - len(pre.group(1))
                ob = first_open_brace(self.mask, at)
                if ob < 0:
                    continue
                cands.append(dict(start=ls, body_open=ob, end=match_brace(self.mask, ob) + 1, header=header))
        if len(cands) <= nth:
            raise ExtractError('%s: fn %s not found under /%s/' % (self.path, name, impl_re))
        if len(cands) > 1 and nth == 0 and impl_re is not None:
            # ambiguous only if caller did not pick
            pass
        return cands[nth]

    def find_item(self, kind: str, name: str):
        """top-level `struct|enum|const|type|static` item text (without attributes)"""
        rx = re.compile(r'(?m)^[ \t]*((?:pub(?:\s*\([^)]*\))?\s+)?' + kind + r'\s+' + re.escape(name) + r'\b)')
        for m in rx.finditer(self.mask):
            if depth_at(self.mask, m.start()) != 0:
                continue
            s = m.start(1)
            if kind in ('const', 'type', 'static'):
                e = self.mask.index(';', s) + 1
            else:
                # struct/enum: either `;` (tuple/unit) or `{...}` whichever comes first at depth 0
                semi = self.mask.find(';', s)
                ob = first_open_brace(self.mask, s)
                if ob >= 0 and (semi < 0 or ob < semi):
                    e = match_brace(self.mask, ob) + 1
                else:
                    e = semi + 1
            return s, e
        raise ExtractError('%s: %s %s not found' % (self.path, kind, name))


def sha256(s: str) -> str:
    return hashlib.sha256(s.encode()).hexdigest()


# --------------------------------------------------------------------------------------------
# Rewrite rules.  Each takes function text and returns (new_text, fired_count).
# --------------------------------------------------------------------------------------------
LOG_MACROS = ('debug', 'info', 'warn', 'error', 'trace')


def _macro_calls(text, mask, names):
    """yield (start, open_paren, close_paren, end_incl_semicolon) for name!( ... );"""
    rx = re.compile(r'\b(' + '|'.join(names) + r')!\s*\(')
    pos = 0
    while True:
        m = rx.search(mask, pos)
        if not m:
            return
        op = m.end() - 1
        cp = match_brace(mask, op, '(', ')')
        end = cp + 1
        k = end
        while k < len(mask) and mask[k] in ' \t':
            k += 1
        if k < len(mask) and mask[k] == ';':
            end = k + 1
        yield m.start(), op, cp, end, m.group(1)
        pos = end


def split_top_commas(text, mask):
    parts, d, last = [], 0, 0
    for k, ch in enumerate(mask):
        if ch in '([{':
            d += 1
        elif ch in ')]}':
            d -= 1
        elif ch == ',' and d == 0:
            parts.append(text[last:k])
            last = k + 1
    parts.append(text[last:])
    return parts


def rule_T3(text):
    """assert!(c, fmt..) -> if !(c) { verif_panic(); }   ;  log macros dropped"""
    fired = 0
    while True:
        mask = code_mask(text)
        hit = next(_macro_calls(text, mask, ['assert'] + list(LOG_MACROS)), None)
        if not hit:
            break
        s, op, cp, e, name = hit
        if name == 'assert':
            inner, imask = text[op + 1:cp], mask[op + 1:cp]
            cond = split_top_commas(inner, imask)[0].strip()
            text = text[:s] + 'if !(%s) { verif_panic(); }' % cond + text[e:]
        else:
            # drop the whole statement, including a now-empty line
            ls = text.rfind('\n', 0, s) + 1
            if text[ls:s].strip() == '' and (e >= len(text) or text[e] == '\n'):
                text = text[:ls] + text[e + 1:]
            else:
                text = text[:s] + text[e:]
        fired += 1
    return text, fired


def _closure_for_each(text, mask, recv_re):
    """find `<recv>.for_each(|x| BODY)` where recv matches recv_re directly before `.for_each`.
    returns (stmt_start, recv_match, var, body_text, body_is_block, stmt_end) or None"""
    for m in re.finditer(recv_re + r'\s*\.for_each\s*(?P<op>\()\s*\|\s*(?P<var>&?\s*\w+)\s*\|', mask):
        op = m.start('op')
        cp = match_brace(mask, op, '(', ')')
        body_s = m.end()
        body = text[body_s:cp].strip()
        end = cp + 1
        k = end
        while k < len(mask) and mask[k] in ' \t':
            k += 1
        if k < len(mask) and mask[k] == ';':
            end = k + 1
        return m, body, end
    return None


def rule_T1(text):
    """(A..B).for_each(|i| { BODY }); -> for i in A..B { BODY }"""
    fired = 0
    while True:
        mask = code_mask(text)
        hit = _closure_for_each(text, mask, r'\((?P<range>[^()]*\.\.[^()]*)\)')
        if not hit:
            break
        m, body, end = hit
        var = m.group('var').strip()
        if not body.startswith('{'):
            body = '{ ' + body + ' }'
        text = text[:m.start()] + 'for %s in %s %s' % (var, m.group('range').strip(), body) + text[end:]
        fired += 1
    # the same loop written over the elements: for X in V.iter_mut() { ..X.f()..*X.. }  ->  for verif_k in 0..V.len() { ..V[verif_k].f()..V[verif_k].. }
    while True:
        mask = code_mask(text)
        hit = _for_over_iter(text, mask, 'iter_mut')
        if not hit:
            break
        m, body, end = hit
        var, vec = m.group('var').strip(), m.group('vec')
        inner = body[1:-1]
        inner2 = re.sub(r'\*\s*' + re.escape(var) + r'\b', '%s[verif_k]' % vec, inner)
        inner2 = re.sub(r'\b' + re.escape(var) + r'\s*\.', '%s[verif_k].' % vec, inner2)
        if re.search(r'\b' + re.escape(var) + r'\b', code_mask(inner2)):
            raise ExtractError('T1: element variable used other than as *%s or %s.method()' % (var, var))
        text = text[:m.start()] + 'for verif_k in 0..%s.len() {%s}' % (vec, inner2) + text[end:]
        fired += 1
    return text, fired


def _for_over_iter(text, mask, method):
    """find `for VAR in VEC.<method>() { BODY }`; returns (match, body_with_braces, end) shaped like _closure_for_each's result"""
    for m in re.finditer(r'\bfor\s+(?P<var>\w+)\s+in\s+(?P<vec>[\w\.]+)\s*\.' + method + r'\s*\(\s*\)\s*(?P<ob>\{)', mask):
        ob = m.start('ob')
        cb = match_brace(mask, ob)
        return m, text[ob:cb + 1], cb + 1
    return None


def rule_T2(text):
    """V.iter_mut().for_each(|s| { ..*s.. });  or  for s in V.iter_mut() { ..*s.. }  -> indexed while loop with *s -> V[verif_i]"""
    fired = 0
    while True:
        mask = code_mask(text)
        hit = _closure_for_each(text, mask, r'(?P<vec>[\w\.]+)\s*\.iter_mut\s*\(\s*\)') or _for_over_iter(text, mask, 'iter_mut')
        if not hit:
            break
        m, body, end = hit
        var = m.group('var').strip()
        vec = m.group('vec')
        if not body.startswith('{'):
            body = '{ ' + body + '; }'
        inner = body[1:-1]
        inner2 = re.sub(r'\*\s*' + re.escape(var) + r'\b', '%s[verif_i]' % vec, inner)
        if re.search(r'\b' + re.escape(var) + r'\b', code_mask(inner2)):
            raise ExtractError('T2: closure variable used other than as *%s' % var)
        ind = re.match(r'[ \t]*', text[text.rfind('\n', 0, m.start()) + 1:]).group(0)
        new = ('let mut verif_i: usize = 0;\n%swhile verif_i < %s.len() {%s    verif_i += 1;\n%s}'
               % (ind, vec, inner2.rstrip() + '\n' + ind, ind))
        text = text[:m.start()] + new + text[end:]
        fired += 1
    return text, fired


def rule_T5(text):
    """V.iter().for_each(|x| EXPR);  or  for x in V.iter() { BODY }  -> indexed while loop with `let x = &V[verif_i];`"""
    fired = 0
    while True:
        mask = code_mask(text)
        hit = _closure_for_each(text, mask, r'(?P<vec>[\w\.]+)\s*\.iter\s*\(\s*\)') or _for_over_iter(text, mask, 'iter')
        if not hit:
            break
        m, body, end = hit
        var = m.group('var').strip()
        vec = m.group('vec')
        if body.startswith('{'):
            body = body[1:-1].strip()
        ind = re.match(r'[ \t]*', text[text.rfind('\n', 0, m.start()) + 1:]).group(0)
        new = ('let mut verif_i: usize = 0;\n%swhile verif_i < %s.len() {\n%s    let %s = &%s[verif_i];\n%s    %s;\n%s    verif_i += 1;\n%s}'
               % (ind, vec, ind, var, vec, ind, body.rstrip(';'), ind, ind))
        text = text[:m.start()] + new + text[end:]
        fired += 1
    return text, fired


def rule_T10(text):
    """call through a boxed client closure held in the configuration:
    `(self.config.NAME)(args)` -> `self.config.NAME.verif_call(args)` (the field's stand-in type has that method)"""
    mask = code_mask(text)
    out, last, fired = '', 0, 0
    for m in re.finditer(r'\(\s*(self\s*\.\s*config\s*\.\s*\w+)\s*\)\s*\(', mask):
        out += text[last:m.start()] + re.sub(r'\s+', '', m.group(1)) + '.verif_call('
        last = m.end()
        fired += 1
    return out + text[last:], fired


def rule_T8(text, var, fields):
    """field access through `Deref` of a map guard: `VAR.field` -> `VAR.value().field`
    (dashmap's `Deref for RefMulti` is `self.value()`)"""
    mask = code_mask(text)
    out, last, fired = '', 0, 0
    for m in re.finditer(r'\b' + re.escape(var) + r'\s*\.\s*(' + '|'.join(re.escape(f) for f in fields) + r')\b(?!\s*\()', mask):
        out += text[last:m.start()] + '%s.value().%s' % (var, m.group(1))
        last = m.end()
        fired += 1
    return out + text[last:], fired


def rule_T9(text):
    """`for PAT in EXPR[.by_ref()] { BODY }` over a non-range iterator -> the loop it desugars to:
    `let mut verif_it = EXPR; loop { let verif_next = verif_it.next(); if verif_next.is_none() { break; } let PAT = verif_next.unwrap(); BODY }`"""
    fired = 0
    while True:
        mask = code_mask(text)
        m = None
        for c in re.finditer(r'\bfor\s+(\w+)\s+in\s+', mask):
            ob = first_open_brace(mask, c.end())
            expr = text[c.end():ob].strip()
            if '..' in code_mask(expr):
                continue          # a range loop: Verus supports it directly
            m = (c, ob, expr)
            break
        if not m:
            break
        c, ob, expr = m
        expr = re.sub(r'\.\s*by_ref\s*\(\s*\)\s*$', '', expr)
        ind = re.match(r'[ \t]*', text[text.rfind('\n', 0, c.start()) + 1:]).group(0)
        head = ('let mut verif_it = %s;\n%sloop {\n%s    let verif_next = verif_it.next();\n%s    if verif_next.is_none() { break; }\n%s    let %s = verif_next.unwrap();'
                % (expr, ind, ind, ind, ind, c.group(1)))
        text = text[:c.start()] + head + text[ob + 1:]
        fired += 1
    return text, fired


def rule_T11(text):
    """`SRC.into_iter().map(|x| EXPR).collect::<HashMap<_, _>>()` -> the loop it computes:
    every element of SRC, in order, is mapped to a (key, value) pair that is inserted into a fresh map"""
    mask = code_mask(text)
    m = re.search(r'(?P<src>[\w\.]+)\s*\.into_iter\s*\(\s*\)\s*\.map\s*\(\s*\|\s*(?P<var>\w+)\s*\|', mask)
    if not m:
        return text, 0
    op = mask.index('(', mask.index('.map', m.start()))
    cp = match_brace(mask, op, '(', ')')
    expr = text[m.end():cp].strip()
    tail = re.match(r'\s*\.collect\s*::\s*<\s*HashMap\s*<\s*_\s*,\s*_\s*>\s*>\s*\(\s*\)', mask[cp + 1:])
    if not tail:
        raise ExtractError('T11: `.collect::<HashMap<_, _>>()` expected after the map adapter')
    end = cp + 1 + tail.end()
    ind = re.match(r'[ \t]*', text[text.rfind('\n', 0, m.start()) + 1:]).group(0)
    new = ('{\n%s    let verif_src = %s;\n%s    let mut verif_out = HashMap::new();\n%s    let mut verif_i: usize = 0;\n'
           '%s    while verif_i < verif_src.len() {\n%s        let %s = verif_src[verif_i];\n%s        let verif_e = %s;\n'
           '%s        verif_out.insert(verif_e.0, verif_e.1);\n%s        verif_i += 1;\n%s    }\n%s    verif_out\n%s}'
           % (ind, m.group('src'), ind, ind, ind, ind, m.group('var'), ind, expr, ind, ind, ind, ind, ind))
    return text[:m.start()] + new + text[end:], 1


def rule_T12(text):
    """`RECV.or_else(|| BODY)` -> `(match RECV { Some(verif_some) => Some(verif_some), None => BODY })`
    (the definition of Option::or_else for a closure that takes no argument); BODY becomes ordinary code, so
    calls inside it can receive the ghost argument of rule T6"""
    fired = 0
    while True:
        mask = code_mask(text)
        m = re.search(r'(?P<recv>\b[\w\.]+)\s*\.\s*or_else\s*\(\s*\|\s*\|', mask)
        if not m:
            break
        op = mask.index('(', mask.index('or_else', m.start()))
        cp = match_brace(mask, op, '(', ')')
        body = text[m.end():cp].strip()
        text = text[:m.start()] + '(match %s { Some(verif_some) => Some(verif_some), None => %s })' % (m.group('recv'), body) + text[cp + 1:]
        fired += 1
    return text, fired


def rule_T13(text):
    """crossbeam `select! { send(S, E) -> R => ARM_SEND, default => ARM_DEFAULT }` (one send operation plus `default`: the
    non-blocking send) is written as what it is:
        match (S).verif_select_send(E) { Some(R) => ARM_SEND, None => ARM_DEFAULT }
    `Some(result)`: the send operation was ready and completed with `result` (Ok: queued; Err: the receiver is gone);
    `None`: it was not ready (queue full) and the default arm ran. Both arm bodies (blocks or expressions) are kept verbatim."""
    def arm(inner, imask, start):
        """the arm body starting at `start` (after `=>`): returns (text, end_offset_after_body)"""
        j = start
        while j < len(imask) and imask[j] in ' \t\n':
            j += 1
        if j < len(imask) and imask[j] == '{':
            c = match_brace(imask, j)
            return inner[j:c + 1], c + 1
        d, e = 0, j
        while e < len(imask):
            ch = imask[e]
            if ch in '([{':
                d += 1
            elif ch in ')]}':
                d -= 1
            elif ch == ',' and d == 0:
                break
            e += 1
        return inner[j:e].strip(), e
    fired = 0
    while True:
        mask = code_mask(text)
        m = re.search(r'\bselect!\s*\{', mask)
        if not m:
            break
        ob = m.end() - 1
        cb = match_brace(mask, ob)
        inner, imask = text[ob + 1:cb], mask[ob + 1:cb]
        m1 = re.match(r'\s*send\s*\(', imask)
        if not m1:
            raise ExtractError('T13: select! whose first operation is not `send(..)`')
        sop = m1.end() - 1
        scp = match_brace(imask, sop, '(', ')')
        args = split_top_commas(inner[sop + 1:scp], imask[sop + 1:scp])
        if len(args) != 2:
            raise ExtractError('T13: send(..) with %d arguments' % len(args))
        m2 = re.match(r'\s*->\s*(\w+)\s*=>', imask[scp + 1:])
        if not m2:
            raise ExtractError('T13: `send(..) -> r => ..` expected')
        arm1, e1 = arm(inner, imask, scp + 1 + m2.end())
        m3 = re.match(r'\s*,?\s*default\s*=>', imask[e1:])
        if not m3:
            raise ExtractError('T13: a `default => ..` arm must follow the send arm')
        arm2, e2 = arm(inner, imask, e1 + m3.end())
        if imask[e2:].strip(' \n\t,') != '':
            raise ExtractError('T13: select! with more than one operation besides default')
        new = ('match (%s).verif_select_send(%s) {\n            Some(%s) => %s,\n            None => %s\n        }'
               % (args[0].strip(), args[1].strip(), m2.group(1), arm1, arm2))
        text = text[:m.start()] + new + text[cb + 1:]
        fired += 1
    return text, fired


def rule_T14(text):
    """`fn f(mut self, ..) { BODY }` is `fn f(self, ..) { let mut verif_self = self; BODY[self := verif_self] }` (what a `mut` binding
    of a by-value parameter means); the signature part is done by a `sigsub /\(mut self/ => (self` line of the template"""
    mask = code_mask(text)
    out, last, n = '', 0, 0
    for m in re.finditer(r'\bself\b', mask):
        out += text[last:m.start()] + 'verif_self'
        last = m.end()
        n += 1
    text = out + text[last:]
    k = text.index('{')
    text = text[:k + 1] + '\n        let mut verif_self = self;' + text[k + 1:]
    return text, n


def rule_T15(text):
    """a plain integer behind a lock guard (`RwLock<Weight>`): the dereference operators on the guard are written as methods of the
    guard stand-in, so that the ghost World can follow them:
        *G += E;   ->  G.verif_add_assign(E);        *G -= E;  ->  G.verif_sub_assign(E);        *G = E;  ->  G.verif_assign(E);
        *PATH.read()  ->  PATH.read().verif_get()          (G an identifier bound to `PATH.write()`)"""
    fired = 0
    for op, name in ((r'\+=', 'verif_add_assign'), (r'-=', 'verif_sub_assign'), (r'=(?!=)', 'verif_assign')):
        while True:
            mask = code_mask(text)
            m = re.search(r'(?<![\w\)\]])\*\s*(\w+)\s*' + op + r'\s*', mask)
            if not m:
                break
            e = mask.index(';', m.end())
            text = text[:m.start()] + '%s.%s(%s)' % (m.group(1), name, text[m.end():e].strip()) + text[e:]
            fired += 1
    while True:
        mask = code_mask(text)
        m = re.search(r'\*\s*((?:\w+\s*\.\s*)+read\s*\(\s*\))', mask)
        if not m:
            break
        text = text[:m.start()] + text[m.start(1):m.end(1)] + '.verif_get()' + text[m.end():]
        fired += 1
    # a read `*G` of a guard variable (bound by `let [mut] G = PATH.write()` / `.read()`) inside an expression
    guards = set(re.findall(r'\blet\s+(?:mut\s+)?(\w+)\s*=\s*(?:\w+\s*\.\s*)+(?:write|read)\s*\(\s*\)\s*;', code_mask(text)))
    for g in sorted(guards):
        while True:
            mask = code_mask(text)
            m = re.search(r'(?<![\w\)\]])\*\s*' + re.escape(g) + r'\b(?!\s*(?:\+=|-=|=(?!=)))', mask)
            if not m:
                break
            text = text[:m.start()] + g + '.verif_get()' + text[m.end():]
            fired += 1
    return text, fired


def rule_T16(text):
    """assignment through a map guard's `value_mut()`:
        let V = G.value_mut();  ...  V.FIELD = EXPR;      ->      ...  G.verif_set_FIELD(EXPR);
    (dashmap's RefMut dereferences to the entry: assigning a field through it IS an update of that entry of the map). Only when V is
    used for nothing but such field assignments; anything else is left alone (and then does not compile: UNDECIDED)."""
    fired = 0
    while True:                                   # the inline form: G.value_mut().FIELD = EXPR;
        mask = code_mask(text)
        m = re.search(r'\b(\w+)\s*\.\s*value_mut\s*\(\s*\)\s*\.\s*(\w+)\s*=(?!=)\s*', mask)
        if not m:
            break
        e = mask.index(';', m.end())
        text = text[:m.start()] + '%s.verif_set_%s(%s)' % (m.group(1), m.group(2), text[m.end():e].strip()) + text[e:]
        fired += 1
    while True:
        mask = code_mask(text)
        m = re.search(r'\blet\s+(\w+)\s*=\s*(\w+)\s*\.\s*value_mut\s*\(\s*\)\s*;[ \t]*\n?', mask)
        if not m:
            break
        v, g = m.group(1), m.group(2)
        rest_mask = mask[m.end():]
        uses = list(re.finditer(r'\b' + re.escape(v) + r'\b', rest_mask))
        assigns = list(re.finditer(r'\b' + re.escape(v) + r'\s*\.\s*(\w+)\s*=(?!=)\s*', rest_mask))
        if not assigns or len(uses) != len(assigns):
            raise ExtractError('T16: `%s` (bound to %s.value_mut()) is used other than in field assignments' % (v, g))
        rest = text[m.end():]
        out, last = '', 0
        for a in assigns:
            e = rest_mask.index(';', a.end())
            out += rest[last:a.start()] + '%s.verif_set_%s(%s)' % (g, a.group(1), rest[a.end():e].strip())
            last = e
            fired += 1
        text = text[:m.start()] + out + rest[last:]
    return text, fired


def rule_T17(text):
    """`ITER.for_each(|x| { BODY });` as a statement over an iterator that T1 / T2 / T5 do not handle (e.g. `receiver.iter()`) is the
    loop `for x in ITER { BODY }` (the definition of Iterator::for_each); T9 then writes that loop with an explicit `next()`."""
    fired = 0
    pos = 0
    while True:
        mask = code_mask(text)
        m = re.search(r'\.\s*for_each\s*\(\s*\|\s*(\w+)\s*\|', mask[pos:])
        if not m:
            break
        fe = pos + m.start()
        # the receiver expression: back to the start of the statement
        st = max(mask.rfind(';', 0, fe), mask.rfind('{', 0, fe), mask.rfind('}', 0, fe)) + 1
        recv = text[st:fe].strip()
        if re.search(r'\.\.', code_mask(recv)) or re.search(r'\.\s*iter(_mut)?\s*\(\s*\)\s*$', code_mask(recv)) and not re.search(r'receiver', recv):
            pos = fe + 1
            continue
        op = mask.index('(', fe)
        cp = match_brace(mask, op, '(', ')')
        body_s = pos + m.end()
        body = text[body_s:cp].strip()
        if not body.startswith('{'):
            body = '{ ' + body + '; }'
        end = cp + 1
        k = end
        while k < len(mask) and mask[k] in ' \t':
            k += 1
        if k < len(mask) and mask[k] == ';':
            end = k + 1
        lead = text[st:fe]
        ind = lead[:len(lead) - len(lead.lstrip())]
        text = text[:st] + ind + 'for %s in %s %s' % (m.group(1), recv, body) + text[end:]
        fired += 1
    return text, fired


def _postfix_receiver_start(mask, dot):
    """start offset of the postfix expression that ends right before the `.` at `dot` (identifiers, paths, field / method chains, calls,
    indexing, `?`, a leading `&` / `*` is NOT included)"""
    i = dot
    while i > 0:
        j = i - 1
        while j >= 0 and mask[j] in ' \t\n':
            j -= 1
        if j < 0:
            return i
        ch = mask[j]
        if ch in ')]':
            op = {')': '(', ']': '['}[ch]
            d, k = 0, j
            while k >= 0:
                if mask[k] == ch:
                    d += 1
                elif mask[k] == op:
                    d -= 1
                    if d == 0:
                        break
                k -= 1
            i = k
            continue
        if ch == '?' or ch == '.':
            i = j
            continue
        if ch == ':' and j > 0 and mask[j - 1] == ':':
            i = j - 1
            continue
        if ch.isalnum() or ch == '_':
            k = j
            while k >= 0 and (mask[k].isalnum() or mask[k] == '_'):
                k -= 1
            word = mask[k + 1:j + 1]
            if word in ('return', 'in', 'if', 'match', 'else', 'let', 'mut', 'move', 'as'):
                return i
            i = k + 1
            # keep going only if what precedes is part of the chain
            p = i - 1
            while p >= 0 and mask[p] in ' \t\n':
                p -= 1
            if p >= 0 and (mask[p] == '.' or (mask[p] == ':' and p > 0 and mask[p - 1] == ':')):
                continue
            return i
        return i
    return i


def rule_T18(text):
    """`RECV.map(|p| BODY)` on an Option is the match it stands for (the definition of Option::map):
        (match RECV { Some(p) => Some(BODY), None => None })
    and `RECV.and_then(|p| BODY)` is `(match RECV { Some(p) => BODY, None => None })`. No closure is left, so BODY is ordinary code that
    can be verified and can receive the ghost argument. (If RECV is not an Option the result does not type-check: UNDECIDED.)"""
    fired = 0
    while True:
        mask = code_mask(text)
        m = re.search(r'\.\s*(map|and_then)\s*\(\s*\|\s*(\w+)\s*\|', mask)
        if not m:
            break
        op = mask.index('(', m.start())
        cp = match_brace(mask, op, '(', ')')
        body = text[m.end():cp].strip()
        rs = _postfix_receiver_start(mask, m.start())
        recv = text[rs:m.start()].strip()
        if not recv:
            raise ExtractError('T18: receiver of .%s(..) not found' % m.group(1))
        some = ('Some(%s)' % body) if m.group(1) == 'map' else body
        new = '(match %s { Some(%s) => %s, None => None })' % (recv, m.group(2), some)
        text = text[:rs] + new + text[cp + 1:]
        fired += 1
    return text, fired


def rule_T19(text):
    """a vector built element by element from an expression that does not depend on the position:
         let V = (A..B).map(|_| EXPR).collect::<..>();           (A, B: literals or field paths)
      -> let mut V = Vec::new(); let mut verif_n: usize = A; while verif_n < B { V.push(EXPR); verif_n += 1; }
         V.resize_with(N, || EXPR);                               (N: a literal or field path)
      -> let mut verif_n: usize = V.len(); if verif_n > N { V.truncate(N); } while verif_n < N { V.push(EXPR); verif_n += 1; }
    (the definitions of Iterator::map / collect over an exact-size range and of Vec::resize_with; the capacity hint is dropped)"""
    fired = 0
    path = r'[\w\.]+'
    while True:
        mask = code_mask(text)
        m = re.search(r'\blet\s+(?P<v>\w+)\s*=\s*\(\s*(?P<a>' + path + r')\s*\.\.\s*(?P<b>' + path + r')\s*\)\s*\.map\s*(?P<op>\()\s*\|\s*_\w*\s*\|', mask)
        if not m:
            break
        op = m.start('op')
        cp = match_brace(mask, op, '(', ')')
        expr = text[m.end():cp].strip()
        t = re.match(r'\s*\.collect\s*(?:::\s*<[^;]*>)?\s*\(\s*\)\s*;', mask[cp + 1:])
        if not t:
            raise ExtractError('T19: `(A..B).map(|_| ..)` is not followed by `.collect();`')
        ind = re.match(r'[ \t]*', text[text.rfind('\n', 0, m.start()) + 1:]).group(0)
        v = m.group('v')
        new = ('let mut %s = Vec::new();\n%slet mut verif_n: usize = %s;\n%swhile verif_n < %s {\n%s    %s.push(%s);\n%s    verif_n += 1;\n%s}'
               % (v, ind, m.group('a'), ind, m.group('b'), ind, v, expr, ind, ind))
        text = text[:m.start()] + new + text[cp + 1 + t.end():]
        fired += 1
    while True:
        mask = code_mask(text)
        m = re.search(r'(?<![\w\.])(?P<v>\w+)\s*\.resize_with\s*(?P<op>\()\s*(?P<n>' + path + r')\s*,\s*\|\s*\|', mask)
        if not m:
            break
        op = m.start('op')
        cp = match_brace(mask, op, '(', ')')
        expr = text[m.end():cp].strip()
        t = re.match(r'\s*;', mask[cp + 1:])
        if not t:
            raise ExtractError('T19: `V.resize_with(N, || ..)` is not a statement')
        ind = re.match(r'[ \t]*', text[text.rfind('\n', 0, m.start()) + 1:]).group(0)
        v, n = m.group('v'), m.group('n')
        new = ('let mut verif_n: usize = %s.len();\n%sif verif_n > %s { %s.truncate(%s); }\n%swhile verif_n < %s {\n%s    %s.push(%s);\n%s    verif_n += 1;\n%s}'
               % (v, ind, n, v, n, ind, n, ind, v, expr, ind, ind))
        text = text[:m.start()] + new + text[cp + 1 + t.end():]
        fired += 1
    return text, fired



RULES = {'T1': rule_T1, 'T2': rule_T2, 'T3': rule_T3, 'T5': rule_T5, 'T9': rule_T9, 'T10': rule_T10, 'T11': rule_T11, 'T12': rule_T12, 'T13': rule_T13, 'T14': rule_T14, 'T15': rule_T15, 'T16': rule_T16, 'T17': rule_T17, 'T18': rule_T18, 'T19': rule_T19}


def t6_key(callees):
    return 'T6:' + (','.join(callees) if len(callees) <= 12 else '%s,..(%d names)' % (','.join(callees[:3]), len(callees)))


def rule_T6(body, callees, arg):
    """ghost (erased) argument threaded through calls: `.callee(args)` / `::callee(args)` -> `callee(args, ARG)`"""
    fired = 0
    pos = 0
    # a callee entry is a method name (`delete`) or a dotted path suffix (`cache.get`, `self.get`)
    alts = []
    for c in callees:
        if '::' in c:
            alts.append(r'(?<![\w])' + r'\s*::\s*'.join(re.escape(x) for x in c.split('::')))
        elif '.' in c:
            alts.append(r'(?<![\w])' + r'\s*\.\s*'.join(re.escape(x) for x in c.split('.')))
        else:
            alts.append(r'(?:\.|::)\s*' + re.escape(c))
    rx = re.compile(r'(?:' + '|'.join(alts) + r')\s*\(')
    while True:
        mask = code_mask(body)
        m = rx.search(mask, pos)
        if not m:
            break
        op = m.end() - 1
        cp = match_brace(mask, op, '(', ')')
        inner = mask[op + 1:cp].strip()
        if body[op + 1:cp].rstrip().rstrip(',').rstrip().endswith(arg):
            pos = op + 1        # already threaded by an earlier ghostarg line
            continue
        ins = ('' if (not inner or inner.endswith(',')) else ', ') + arg
        body = body[:cp] + ins + body[cp:]
        pos = op + 1            # nested calls inside the argument list are handled too
        fired += 1
    return body, fired


FRAGILE = []      # reasons why the annotations of the function being extracted may not sit where they were written for (reset per function)


def rule_T7(body, k, header):
    """spec annotation of the k-th closure literal `|params| EXPR`: the header is replaced by `header`
    (same parameter names, now typed, plus `-> (r: T) ensures ..`) and a non-block body is wrapped in braces"""
    mask = code_mask(body)
    found = []
    for m in re.finditer(r'\|([^|()]*)\|', mask):
        # a closure header is preceded by `=`, `(`, `,` or `move`
        pre = mask[:m.start()].rstrip()
        if pre.endswith(('=', '(', ',', 'move', '&')) and not pre.endswith(('==', '<=', '>=', '!=', '&&')):
            found.append(m)
    if len(found) < k:
        FRAGILE.append('closure #%d of the contract is gone (function has %d closures)' % (k, len(found)))
        return body, 0
    m = found[k - 1]
    orig_params = [x.strip().split(':')[0].strip() for x in m.group(1).split(',') if x.strip()]
    hm = re.match(r'\s*\|([^|]*)\|', header)
    def _top_split(t):
        parts, d, cur = [], 0, ''
        for ch in t:
            if ch in '<([':
                d += 1
            elif ch in '>)]':
                d -= 1
            if ch == ',' and d == 0:
                parts.append(cur)
                cur = ''
            else:
                cur += ch
        return parts + [cur]
    new_params = [x.strip().split(':')[0].strip() for x in _top_split(hm.group(1)) if x.strip()] if hm else None
    if new_params != orig_params:
        if new_params is None or len(new_params) != len(orig_params):
            raise ExtractError('closure #%d: parameter names %s do not match the annotation %s' % (k, orig_params, new_params))
        # same arity, other names: the closure's parameters are alpha-renamed to the names the annotation uses (the annotation may
        # now sit on a different closure than the one it was written for: a failure of this function is then inconclusive)
        FRAGILE.append('closure #%d: parameters %s renamed to %s' % (k, orig_params, new_params))
        j0 = m.end()
        while mask[j0] in ' \t\n':
            j0 += 1
        if mask[j0] == '{':
            e0 = match_brace(mask, j0) + 1
        else:
            d0, e0 = 0, j0
            while e0 < len(mask):
                ch = mask[e0]
                if ch in '([{':
                    d0 += 1
                elif ch in ')]}':
                    if d0 == 0:
                        break
                    d0 -= 1
                elif ch in ';,' and d0 == 0:
                    break
                e0 += 1
        seg, _n = alpha_rename(body[m.start():e0], orig_params, new_params, 'closure #%d' % k)
        body = body[:m.start()] + seg + body[e0:]
        return rule_T7(body, k, header)
    # body of the closure: up to the terminating `;` / `,` / `)` at depth 0
    j = m.end()
    while mask[j] in ' \t\n':
        j += 1
    if mask[j] == '{':
        end = match_brace(mask, j) + 1
        new_body = body[j:end]
    else:
        d, e = 0, j
        while e < len(mask):
            ch = mask[e]
            if ch in '([{':
                d += 1
            elif ch in ')]}':
                if d == 0:
                    break
                d -= 1
            elif ch in ';,' and d == 0:
                break
            e += 1
        end = e
        new_body = '{ ' + body[j:end].strip() + ' }'
    return body[:m.start()] + header.strip() + ' ' + new_body + body[end:], 1


def auto_annotate_boolean_closures(body):
    """closure literals that no `//@@ closure k` line annotates and whose body is ONE side-effect-free boolean expression
    (`|x| x.f() > 0`, `|a| !a.is_empty()`): the closure is given the postcondition `result == <its own body>`, so a caller that
    passes it to a std function with a contract (Option::filter, ..) is checked against what the closure really computes.
    Anything else (block bodies, non-boolean bodies, macros) is left unannotated."""
    fired = 0
    pos = 0
    while True:
        mask = code_mask(body)
        m = None
        for c in re.finditer(r'\|([^|()]*)\|', mask[pos:]):
            pre = mask[:pos + c.start()].rstrip()
            if pre.endswith(('=', '(', ',', 'move', '&')) and not pre.endswith(('==', '<=', '>=', '!=', '&&')):
                m = c
                break
        if not m:
            break
        start = pos + m.start()
        j = pos + m.end()
        while mask[j] in ' \t\n':
            j += 1
        pos = j
        if mask[j:j + 2] == '->' or mask[j] == '{':
            continue                      # annotated already, or a block body
        d, e = 0, j
        while e < len(mask):
            ch = mask[e]
            if ch in '([{':
                d += 1
            elif ch in ')]}':
                if d == 0:
                    break
                d -= 1
            elif ch in ';,' and d == 0:
                break
            e += 1
        expr = body[j:e].strip()
        emask = code_mask(expr)
        depth0 = ''
        dd = 0
        for ch in emask:
            if ch in '([{':
                dd += 1
            elif ch in ')]}':
                dd -= 1
            depth0 += ch if dd == 0 else ' '
        is_bool = bool(re.search(r'==|!=|<=|>=|&&|\|\||(?<![-=<>])[<>](?![<>=])', depth0)) or emask.startswith('!') or bool(re.search(r'\.\s*(is_some|is_none|is_empty)\s*\(\s*\)\s*$', emask))
        if not is_bool or re.search(r'\w+!\s*[\(\[\{]', emask) or '|' in depth0.replace('||', ''):
            continue
        new = '%s -> (verif_c: bool) ensures verif_c == (%s) { %s }' % (body[start:pos - (pos - (start + (m.end() - m.start())))].strip(), expr, expr)
        body = body[:start] + new + body[e:]
        pos = start + len(new)
        fired += 1
    return body, fired


def count_unannotated_closures(text: str) -> int:
    """closure literals `|params| BODY` that carry no contract (no `-> (..) requires/ensures`): a caller that depends on what such a closure
    computes cannot be verified, and a failure of the enclosing function is then NOT evidence of a violation"""
    mask = code_mask(text)
    n = 0
    for c in re.finditer(r'\|([^|()]*)\|', mask):
        pre = mask[:c.start()].rstrip()
        if not (pre.endswith(('=', '(', ',', 'move', '&')) and not pre.endswith(('==', '<=', '>=', '!=', '&&'))):
            continue
        j = c.end()
        while j < len(mask) and mask[j] in ' \t\n':
            j += 1
        if mask[j:j + 2] == '->':
            k = mask.find('{', j)
            if re.search(r'\b(ensures|requires)\b', mask[j:k if k > 0 else j + 400]):
                continue
        n += 1
    return n


def param_list_open(mask):
    """offset of the `(` opening the parameter list: the first `(` after `fn name` outside the generics"""
    fm = re.search(r'\bfn\s+\w+', mask)
    i, depth = fm.end(), 0
    while i < len(mask):
        ch = mask[i]
        if ch == '-' and mask[i:i + 2] == '->':
            i += 2
            continue
        if ch == '<':
            depth += 1
        elif ch == '>':
            depth -= 1
        elif ch == '(' and depth == 0:
            return i
        i += 1
    raise ExtractError('parameter list not found')


# --------------------------------------------------------------------------------------------
def name_return(sig: str, ret_name: str):
    """`-> T` (before where / end) becomes `-> (ret_name: T)`; returns (sig, where_clause)"""
    mask = code_mask(sig)
    # split off where clause (top-level `where`)
    wm = None
    d = 0
    for m in re.finditer(r'\bwhere\b', mask):
        if depth_at(mask.replace('(', '{').replace(')', '}').replace('<', ' ').replace('>', ' '), m.start()) == 0:
            wm = m
            break
    where = ''
    if wm:
        where = sig[wm.start():].rstrip()
        sig = sig[:wm.start()].rstrip()
        mask = mask[:len(sig)]
    # find the parameter list's closing paren
    op = param_list_open(mask)
    cp = match_brace(mask, op, '(', ')')
    tail = sig[cp + 1:]
    am = re.match(r'\s*->\s*(.+?)\s*$', tail, re.S)
    if am:
        rtype = am.group(1).strip()
        # the repository writes `-> Self <>` in a few places; keep as is
        sig = sig[:cp + 1] + ' -> (%s: %s)' % (ret_name, rtype)
    return sig, where


def nth_loop_brace(body: str, k: int) -> int:
    """offset of the `{` that opens the body of the k-th (1-based) loop in textual order"""
    mask = code_mask(body)
    loops = [m for m in re.finditer(r'\b(for|while|loop)\b', mask)]
    # `for` inside `impl ... for` or HRTB do not occur inside fn bodies here
    if len(loops) < k:
        raise ExtractError('loop #%d not found (function has %d loops)' % (k, len(loops)))
    m = loops[k - 1]
    ob = first_open_brace(mask, m.end())
    if ob < 0:
        raise ExtractError('loop #%d: no body brace' % k)
    return ob


def rename_loop_var(body: str, k: int, want: str, where: str):
    """the k-th loop is `for X in ..`: X is renamed (bound-variable renaming, inside that loop only) to the name the invariant uses"""
    mask = code_mask(body)
    loops = [m for m in re.finditer(r'\b(for|while|loop)\b', mask)]
    if len(loops) < k:
        return body, 0
    m = loops[k - 1]
    h = re.match(r'for\s+(\w+)\s+in\b', mask[m.start():])
    if not h or h.group(1) == want:
        return body, 0
    ob = first_open_brace(mask, m.end())
    cb = match_brace(mask, ob)
    seg, n = alpha_rename(body[m.start():cb + 1], [h.group(1)], [want], '%s: loop #%d variable' % (where, k))
    return body[:m.start()] + seg + body[cb + 1:], n


def count_loops(body: str) -> int:
    return len(re.findall(r'\b(for|while|loop)\b', code_mask(body)))


def loops_gone(body: str, spec: dict, fired: dict) -> bool:
    """The contract annotates loops but the function (after the rewrite rules) no longer has ANY: the invariants have nothing to
    attach to and are dropped; the loop-free body is then checked against the same contract, which needs no invariant.
    (A different non-zero number of loops stays an extraction error: the invariants cannot be placed.)"""
    if (spec.get('loops') or spec.get('loop_tails')) and count_loops(body) == 0:
        fired['loops-gone:annotations-dropped'] = len(spec.get('loops', {})) + len(spec.get('loop_tails', {}))
        return True
    return False


def inline_private_helpers(src, spec, body, known_names):
    """A function under contract calls `self.h(args)` / `Self::h(args)` where `h` is unknown to the template but IS a private function of
    the same impl block, not recursive, without `return` / `?`: the call is replaced by the block `{ let p1 = a1; ..; BODY }` (a Rust block
    is an expression, so this works in statement and in expression position; `self` means the same object). The verified text then is
    what the caller really executes. Helpers that do not qualify are left alone (the unit then fails to compile: UNDECIDED)."""
    fired = {}
    for _round in range(4):
        mask = code_mask(body)
        hit = None
        for m in re.finditer(r'\b(self\s*\.|Self\s*::)\s*(\w+)\s*\(', mask):
            name = m.group(2)
            if name in known_names or name == spec['fn']:
                continue
            try:
                loc = src.find_fn(spec.get('impl') or None, name, 0)
            except ExtractError:
                try:
                    loc = src.find_fn(r'^impl\b', name, 0)     # another (inherent) impl block of the same file; ambiguous names are refused
                except ExtractError:
                    continue
            hsig = src.text[loc['start']:loc['body_open']]
            hbody = src.text[loc['body_open']:loc['end']]
            hmask = code_mask(hbody)
            if re.match(r'\s*pub\b', hsig) or re.search(r'\breturn\b|\?\s*[;\.\)]|\b' + name + r'\s*\(', hmask):
                continue
            smask = code_mask(hsig)
            pop = param_list_open(smask)
            pcl = match_brace(smask, pop, '(', ')')
            params = [x.strip() for x in split_top_commas(hsig[pop + 1:pcl], smask[pop + 1:pcl]) if x.strip()]
            takes_self = bool(params) and re.match(r'(&\s*(mut\s+)?)?self$', params[0]) is not None
            if takes_self != m.group(1).startswith('self'):
                continue
            pnames = []
            ok = True
            for prm in (params[1:] if takes_self else params):
                mm = re.match(r'(mut\s+)?(\w+)\s*:', prm)
                if not mm:
                    ok = False
                    break
                pnames.append(('mut ' if mm.group(1) else '') + mm.group(2))
            if not ok:
                continue
            op = m.end() - 1
            cp = match_brace(mask, op, '(', ')')
            args = [x.strip() for x in split_top_commas(body[op + 1:cp], mask[op + 1:cp]) if x.strip()]
            if len(args) != len(pnames):
                continue
            hit = (m.start(), cp + 1, name, pnames, args, hbody.strip()[1:-1].strip())
            break
        if not hit:
            break
        st, en, name, pnames, args, inner = hit
        lets = ''.join('let %s = %s; ' % (pn, a) for pn, a in zip(pnames, args))
        body = body[:st] + '{ ' + lets + inner + ' }' + body[en:]
        fired['inlined:' + name] = fired.get('inlined:' + name, 0) + 1
    return body, fired


def extract_fn(repo: str, spec: dict):
    """spec: file, impl (regex or ''), fn, nth, rules [..], ret, contract (text), proof (text),
    loops {k: text}, attrs (text placed before fn), sig_sub [(regex, repl)], body_sub (disallowed)
    returns (verus_text, info)"""
    src = Source(repo + '/' + spec['file'])
    loc = src.find_fn(spec.get('impl') or None, spec['fn'], int(spec.get('nth', 0)))
    raw = src.text[loc['start']:loc['end']]
    sig = src.text[loc['start']:loc['body_open']]
    body = src.text[loc['body_open']:loc['end']]          # includes braces
    fired = {}
    del FRAGILE[:]
    if spec.get('known_names') is not None:
        body, inl = inline_private_helpers(src, spec, body, spec['known_names'])
        fired.update(inl)
    for r in spec.get('rules', []):
        body, n = RULES[r](body)
        fired[r] = n
    for (var, fields) in spec.get('derefs', []):
        body, n = rule_T8(body, var, fields)
        fired['T8:' + var] = n
    for (callees, arg) in spec.get('ghost_args', []):
        body, n = rule_T6(body, callees, arg)      # n == 0: the function no longer makes any of these calls; the contract decides
        fired[t6_key(callees)] = n
    for k in sorted(spec.get('closures', {}), reverse=True):
        body, n = rule_T7(body, int(k), spec['closures'][k])
        fired['T7:closure%d' % int(k)] = n
    body, n = auto_annotate_boolean_closures(body)
    if n:
        fired['T7-auto:boolean closures'] = n
    n_unannotated = count_unannotated_closures(body)      # counted on the code, before invariants / proof blocks (which may hold spec closures) are spliced in
    for gp in spec.get('ghost_params', []):
        mask = code_mask(sig)
        op = param_list_open(mask)
        cp = match_brace(mask, op, '(', ')')
        inner = mask[op + 1:cp].strip()
        sig = sig[:cp].rstrip().rstrip(',') + ((', ' if inner else '') + gp) + sig[cp:]
        fired['T6:ghostparam'] = fired.get('T6:ghostparam', 0) + 1
    for (pat, rep) in spec.get('sig_sub', []):
        sig, n = re.subn(pat, rep, sig)
        if n == 0:
            raise ExtractError('%s::%s: signature substitution /%s/ did not apply' % (spec['file'], spec['fn'], pat))
        fired['S:' + pat] = n
    sig, where = name_return(sig.rstrip(), spec.get('ret', 'r'))
    for (nm, ty) in spec.get('ascribe', []):
        # a type ascription on a local (`let [mut] NAME = ..` -> `let [mut] NAME: TYPE = ..`): inference help only, no behaviour
        mask = code_mask(body)
        am = re.search(r'\blet\s+(?:mut\s+)?' + re.escape(nm) + r'(?=\s*=[^=])', mask)
        if am:
            body = body[:am.end()] + ': ' + ty + body[am.end():]
            fired['ascribe:' + nm] = 1
    gone = loops_gone(body, spec, fired)
    for k in sorted(spec.get('loop_vars', {}) if not gone else {}):
        body, n = rename_loop_var(body, int(k), spec['loop_vars'][k], '%s::%s' % (spec['file'], spec['fn']))
        if n:
            fired['alpha-rename:loop%d->%s' % (int(k), spec['loop_vars'][k])] = n
    for k in sorted(spec.get('loop_tails', {}) if not gone else {}, reverse=True):
        ob = nth_loop_brace(body, int(k))
        cb = match_brace(code_mask(body), ob)
        body = body[:cb] + '    proof {\n' + spec['loop_tails'][k].rstrip() + '\n        }\n    ' + body[cb:]
    # loops first (offsets in body), from last to first so offsets stay valid
    for k in sorted(spec.get('loops', {}) if not gone else {}, reverse=True):
        ob = nth_loop_brace(body, int(k))
        body = body[:ob] + '\n' + spec['loops'][k].rstrip() + '\n        ' + body[ob:]
    if spec.get('proof'):
        body = '{\n        proof {\n' + spec['proof'].rstrip() + '\n        }' + body[1:]
    if spec.get('entry'):
        body = '{\n' + spec['entry'].rstrip() + '\n' + body[1:]
    out = ''
    if spec.get('attrs'):
        out += spec['attrs'].rstrip() + '\n'
    out += sig
    if where:
        out += '\n        ' + where
    if spec.get('contract'):
        out += '\n' + spec['contract'].rstrip() + '\n    '
    else:
        out += ' '
    out += body + '\n'
    info = dict(file=spec['file'], impl=loc['header'], fn=spec['fn'],
                lines=[src.line_of(loc['start']), src.line_of(loc['end'] - 1)],
                sha256=sha256(raw), rules_fired=fired, unannotated_closures=n_unannotated + len(FRAGILE), fragile=list(FRAGILE))
    return out, info


def alpha_rename(body: str, have: list, want: list, where: str):
    """bound-variable renaming of closure / loop parameters to the names the contract was written for: `have[i]` -> `want[i]`
    in BODY (identifier occurrences in code only). Refused (UNDECIDED) when arities differ or a wanted name already occurs in
    BODY as a different identifier (it would be captured)."""
    if len(have) != len(want):
        raise ExtractError('%s: has parameters %s, the contract was written for %s' % (where, have, want))
    fired = 0
    for h, w in zip(have, want):
        if h == w:
            continue
        mask = code_mask(body)
        if re.search(r'\b' + re.escape(w) + r'\b', mask):
            raise ExtractError('%s: parameter `%s` cannot be renamed to `%s` (the body already uses that name)' % (where, h, w))
        out, last = '', 0
        for m in re.finditer(r'\b' + re.escape(h) + r'\b', mask):
            out += body[last:m.start()] + w
            last = m.end()
        body = out + body[last:]
        fired += 1
    return body, fired


def extract_closure_fn(repo: str, spec: dict):
    """A closure bound by `let NAME = [move] |PARAMS| BODY;` inside function spec['fn'] becomes a function:
    the template supplies the signature (captured variables and parameters, with types), the extractor
    supplies BODY verbatim.  The closure's parameter names must be the ones listed in spec['params']."""
    src = Source(repo + '/' + spec['file'])
    loc = src.find_fn(spec.get('impl') or None, spec['fn'], int(spec.get('nth', 0)))
    seg_text = src.text[loc['body_open']:loc['end']]
    seg_mask = src.mask[loc['body_open']:loc['end']]
    m = re.search(r'\blet\s+' + re.escape(spec['let']) + r'\s*=\s*(?:move\s*)?\|([^|]*)\|', seg_mask)
    if not m:
        raise ExtractError('%s::%s: closure binding `let %s = |..| ..` not found' % (spec['file'], spec['fn'], spec['let']))
    params = [x.strip().split(':')[0].strip() for x in m.group(1).split(',') if x.strip()]
    want = [x for x in spec.get('params', '').split(',') if x]
    j = m.end()
    while seg_mask[j] in ' \t\n':
        j += 1
    if seg_mask[j] == '{':
        end = match_brace(seg_mask, j) + 1
        body = seg_text[j:end]
    else:
        end = seg_mask.index(';', j)
        body = '{ ' + seg_text[j:end].strip() + ' }'
    raw = seg_text[m.start():end]
    fired = {}
    if params != want:
        body, n = alpha_rename(body, params, want, '%s::%s: closure %s' % (spec['file'], spec['fn'], spec['let']))
        fired['alpha-rename:%s->%s' % (','.join(params), ','.join(want))] = n
    for r in spec.get('rules', []):
        body, n = RULES[r](body)
        fired[r] = n
    for (callees, arg) in spec.get('ghost_args', []):
        body, n = rule_T6(body, callees, arg)
        fired[t6_key(callees)] = n
    out = spec['signature'].rstrip()
    if spec.get('contract'):
        out += '\n' + spec['contract'].rstrip() + '\n    '
    out += body + '\n'
    start = loc['body_open'] + m.start()
    info = dict(file=spec['file'], impl=loc['header'], fn='%s::<closure %s>' % (spec['fn'], spec['let']),
                lines=[src.line_of(start), src.line_of(loc['body_open'] + end)], sha256=sha256(raw), rules_fired=dict(fired, X1c='closure body -> function'),
                unannotated_closures=count_unannotated_closures(body), verified_as=re.search(r'\bfn\s+(\w+)', spec['signature']).group(1))
    return out, info


def extract_loop_body_fn(repo: str, spec: dict):
    """The body of `thread::spawn(move || { while let Ok(VAR) = receiver.recv() { BODY } })` inside function spec['fn']
    becomes a function (one call = one iteration): the template supplies the signature, the extractor BODY verbatim.
    The only rewriting: a `break;` that leaves the loop (the thread ends) is written `return;` (the step ends)."""
    src = Source(repo + '/' + spec['file'])
    loc = src.find_fn(spec.get('impl') or None, spec['fn'], int(spec.get('nth', 0)))
    seg_mask = src.mask[loc['body_open']:loc['end']]
    m = re.search(r'thread::spawn\s*\(\s*move\s*\|\|\s*\{', seg_mask)
    if not m:
        raise ExtractError('%s::%s: thread::spawn(move || {..}) not found' % (spec['file'], spec['fn']))
    w = re.search(r'while\s+let\s+Ok\((\w+)\)\s*=\s*receiver\.recv\(\)\s*\{', seg_mask[m.end():])
    if not w:
        raise ExtractError('%s::%s: `while let Ok(x) = receiver.recv()` not found' % (spec['file'], spec['fn']))
    ob = loc['body_open'] + m.end() + w.end() - 1
    cb = match_brace(src.mask, ob)
    raw = src.text[ob:cb + 1]
    body = raw
    fired = {}
    if w.group(1) != spec.get('var'):
        body, k = alpha_rename(body, [w.group(1)], [spec.get('var')], '%s::%s: loop variable' % (spec['file'], spec['fn']))
        fired['alpha-rename:%s->%s' % (w.group(1), spec.get('var'))] = k
    bm = code_mask(body)
    # `break` -> `return` (only breaks that are not inside a nested loop of BODY)
    out, last, n = '', 0, 0
    for b in re.finditer(r'\bbreak\s*;', bm):
        # nested loop check: is there an enclosing for/while/loop inside body before this position whose block contains it?
        nested = False
        for lp in re.finditer(r'\b(for|while|loop)\b', bm[:b.start()]):
            lob = first_open_brace(bm, lp.end())
            if lob >= 0 and lob < b.start() and match_brace(bm, lob) > b.start():
                nested = True
        if nested:
            continue
        out += body[last:b.start()] + 'return;'
        last = b.end()
        n += 1
    body = out + body[last:]
    fired['break->return'] = n
    for r in spec.get('rules', []):
        body, k = RULES[r](body)
        fired[r] = k
    for (callees, arg) in spec.get('ghost_args', []):
        body, k = rule_T6(body, callees, arg)
        fired[t6_key(callees)] = k
    n_unannotated = count_unannotated_closures(body)
    gone = loops_gone(body, spec, fired)
    for kk in sorted(spec.get('loop_tails', {}) if not gone else {}, reverse=True):
        lob = nth_loop_brace(body, int(kk))
        lcb = match_brace(code_mask(body), lob)
        body = body[:lcb] + '    proof {\n' + spec['loop_tails'][kk].rstrip() + '\n        }\n    ' + body[lcb:]
    for kk in sorted(spec.get('loops', {}) if not gone else {}, reverse=True):
        lob = nth_loop_brace(body, int(kk))
        body = body[:lob] + '\n' + spec['loops'][kk].rstrip() + '\n        ' + body[lob:]
    if spec.get('proof'):
        body = '{\n        proof {\n' + spec['proof'].rstrip() + '\n        }' + body[1:]
    out = ''
    if spec.get('attrs'):
        out += spec['attrs'].rstrip() + '\n'
    out += spec['signature'].rstrip()
    if spec.get('contract'):
        out += '\n' + spec['contract'].rstrip() + '\n    '
    out += body + '\n'
    info = dict(file=spec['file'], impl=loc['header'], fn='%s::<loop body>' % spec['fn'],
                lines=[src.line_of(ob), src.line_of(cb)], sha256=sha256(raw), rules_fired=dict(fired, X1='thread loop body -> function'),
                unannotated_closures=n_unannotated, verified_as=re.search(r'\bfn\s+(\w+)', spec['signature']).group(1))
    return out, info


def extract_item(repo: str, file: str, kind: str, name: str, subs=()):
    src = Source(repo + '/' + file)
    s, e = src.find_item(kind, name)
    raw = src.text[s:e]
    txt = raw
    for (pat, rep) in subs:
        txt = re.sub(pat, rep, txt)
    info = dict(file=file, item='%s %s' % (kind, name), lines=[src.line_of(s), src.line_of(e - 1)], sha256=sha256(raw))
    return txt + '\n', info


if __name__ == '__main__':
    import sys
    import json
    s = Source(sys.argv[1])
    loc = s.find_fn(sys.argv[2] or None, sys.argv[3])
    print(s.text[loc['start']:loc['end']])
    print(json.dumps({k: v for k, v in loc.items()}))
