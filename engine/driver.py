#!/usr/bin/env python3
"""vcheck <Cxx> [--tier quick|thorough]      decide one property on /repo's current working tree
   vcheck replay <file>                    re-run the obligation named in a replay file

exit 0: every obligation of the property discharged (KNOWN-FINDING lines for listed findings)
exit 1: `VIOLATION property=<id> replay=<path>[ no-failing-input-found]`
exit 2: `UNDECIDED ...` (lost anchor, unsupported construct, tool crash, time-out) - never an alarm
"""
import argparse
import json
import os
import re
import sys
import time

HERE = os.path.dirname(os.path.abspath(__file__))
VERIF = os.path.dirname(HERE)
sys.path.insert(0, HERE)
import verus_unit  # noqa: E402
import kani_unit   # noqa: E402
import native_replay  # noqa: E402
from extract import ExtractError  # noqa: E402
from proptable import PROPS, HARNESS_PREFIX  # noqa: E402

REPO = os.environ.get('VERIF_REPO', '/repo')


def load_known():
    p = os.path.join(VERIF, 'known_findings.json')
    if not os.path.exists(p):
        return {'findings': [], 'fixed': []}
    return json.load(open(p))


def full(h):
    mod, name = h.split('/')
    return HARNESS_PREFIX[mod] + '::' + name


def main():
    ap = argparse.ArgumentParser()
    ap.add_argument('prop')
    ap.add_argument('--tier', default=os.environ.get('VERIF_TIER', 'quick'), choices=['quick', 'thorough'])
    ap.add_argument('--keep', action='store_true')
    ap.add_argument('file', nargs='?')
    a = ap.parse_args()
    if a.prop == 'replay':
        return native_replay.replay_file(a.file)
    pid = a.prop
    if pid not in PROPS:
        print('unknown or unclaimed property', pid)
        return 2
    spec = PROPS[pid]
    tier = a.tier
    seed = int(os.environ.get('VERIF_SEED', '0') or 0)
    t0 = time.time()
    known = load_known()
    known_ids = {f['id']: f for f in known.get('findings', []) if f.get('property') == pid}

    obligations = []     # dict(name, engine, kind: complete|bounded|lemma|fn, status: ok|failed|undecided, detail)
    undecided = []
    trusted = set()
    functions = []
    cmds = []
    solver_time = 0.0
    backends = set()
    violations = []      # dict(obligation, engine, detail, playback)
    findings_seen = []
    edits = []

    # ---------------- anchors: syntactic side conditions the contracts rest on (a lost anchor is UNDECIDED, never an alarm)
    for an in spec.get('anchors', []):
        try:
            txt = open(os.path.join(REPO, an['file']), encoding='utf-8').read()
        except OSError as e:
            undecided.append('anchor %s: %s' % (an['what'], e))
            continue
        from extract import code_mask
        code = code_mask(txt)
        tm = re.search(r'#\[cfg\(test\)\]\s*mod\b', code)     # the test modules of this crate close each file
        if tm:
            code = code[:tm.start()]
        n = len(re.findall(an['regex'], code))
        if n != an['count']:
            undecided.append('anchor lost: %s (%s: /%s/ occurs %d times, expected %d)' % (an['what'], an['file'], an['regex'], n, an['count']))
    # ---------------- Verus units
    for unit in spec.get('verus', []):
        tpl = os.path.join(VERIF, 'contracts', unit + '.vtpl')
        try:
            r = verus_unit.check_unit(unit, tpl, os.path.join(VERIF, 'build', 'verus'), repo=REPO,
                                      extra=(['--no-cheating'] if unit == 'lemmas' else []))
        except ExtractError as e:
            undecided.append('verus unit %s: extraction failed: %s' % (unit, e))
            continue
        cmds.append(r['cmd'])
        solver_time += r['solver_time_s']
        backends.add(r['backend'])
        for t in r['trusted']:
            trusted.add('verus unit %s: %s' % (unit, t))
        functions += [dict(unit=unit, **f) for f in r['functions']]
        if r['status'] == 'undecided' and not r.get('inconclusive_only'):
            undecided.append('verus unit %s: %s' % (unit, r['errors'][-1500:]))
        only = spec.get('verus_only', {}).get(unit)
        for o in r['obligations']:
            if o['mode'] == 'spec' and o['success']:
                continue
            if only is not None and not any(re.search(rx, o['name']) for rx in only):
                continue
            kind = 'lemma' if o['mode'] == 'proof' else 'fn'
            ob = dict(name='verus:%s::%s' % (unit, o['name']), engine='verus', kind=kind,
                      status='ok' if o['success'] else 'failed', time_s=o['time_us'] / 1e6, rlimit=o['rlimit'])
            if not o['success'] and o.get('inconclusive'):
                ob['status'] = 'undecided'
                obligations.append(ob)
                msg = 'verus %s::%s fails but contains a closure that carries no contract (inconclusive, not a violation)' % (unit, o['name'])
                if msg not in undecided:
                    undecided.append(msg)
                continue
            obligations.append(ob)
            if not o['success'] and r['status'] == 'failed':
                det = '\n\n'.join(b for b in r['error_blocks'])
                violations.append(dict(obligation=ob['name'], engine='verus', detail=det[-6000:], errors=o.get('errors', []), playback=None, file=r['file']))

    # ---------------- Verus region probes: the unit re-verified WITHOUT the line that excludes a known-finding
    # region; a failure of the named function means the region is (still) reachable and failing
    for fid, pr in spec.get('verus_probes', {}).items():
        tpl = os.path.join(VERIF, 'contracts', pr['unit'] + '.vtpl')
        try:
            r = verus_unit.check_unit(pr['unit'], tpl, os.path.join(VERIF, 'build', 'verus'), repo=REPO,
                                      drop_lines=[pr['drop_line']], crate=pr['unit'] + '_probe')
        except ExtractError as e:
            undecided.append('verus probe %s: %s' % (fid, e))
            continue
        cmds.append(r['cmd'])
        if r['status'] == 'undecided':
            undecided.append('verus probe %s: %s' % (fid, r['errors'][-800:]))
            continue
        failed = [o['name'] for o in r['obligations'] if not o['success']]
        present = any(re.search(pr['fn'], n) for n in failed)
        obligations.append(dict(name='verus-probe:%s' % fid, engine='verus', kind='cover', status='ok',
                                note='region probe for %s: %s' % (fid, 'reachable (obligation fails without the exclusion)' if present else 'unreachable')))
        if present:
            if fid in known_ids:
                findings_seen.append(known_ids[fid])
            else:
                violations.append(dict(obligation='verus-probe:' + fid, engine='verus', playback=None, file=r['file'],
                                       detail='finding region %s is reachable but not listed in known_findings.json\n' % fid + '\n\n'.join(r['error_blocks'])[-4000:]))

    # ---------------- Kani harnesses
    hs = list(spec.get('kani', {}).get('quick', []))
    if tier == 'thorough':
        hs += [h for h in spec.get('kani', {}).get('thorough', []) if h not in hs]
    meta = spec.get('kani_meta', {})
    root = None
    if hs:
        try:
            root, crate, edits = kani_unit.prepare(REPO)
        except ExtractError as e:
            undecided.append('kani: instrumentation failed: %s' % e)
            hs = []
    try:
        if hs:
            names = [full(h) for h in hs]
            res, out, cmd, wall, rc = kani_unit.run(crate, names, jobs=int(os.environ.get('VERIF_JOBS', '8')),
                                                    timeout_s=spec.get('kani_timeout', 2400),
                                                    per_harness_timeout=spec.get('harness_timeout', '900s'))
            cmds.append(cmd)
            backends.add('CBMC 6.11 + CaDiCaL (via Kani 0.68)')
            os.makedirs(os.path.join(VERIF, 'build'), exist_ok=True)
            open(os.path.join(VERIF, 'build', 'kani_%s_%s.log' % (pid, tier)), 'w').write(out)
            if re.search(r'error(\[E\d+\])?: |could not compile', out) and all(r['status'] == 'unknown' for r in res.values()):
                undecided.append('kani: the scratch copy did not compile:\n' + '\n'.join(l for l in out.split('\n') if 'error' in l)[:3000])
            for h, n in zip(hs, names):
                r = res[n]
                m = meta.get(h, {})
                kind = m.get('kind', 'complete')
                solver_time += r['time_s'] or 0
                if m.get('region_cover'):
                    fid = m['region_cover']
                    if r['status'] == 'unknown' or r['tool_problem'] or r['undetermined']:
                        undecided.append('kani %s: %s' % (h, (r['text'] or '')[-800:]))
                        continue
                    present = r['covers_satisfied'] > 0
                    obligations.append(dict(name='kani:' + h, engine='kani', kind='cover', status='ok', time_s=r['time_s'],
                                            note='region cover for %s: %s' % (fid, 'reachable' if present else 'unreachable')))
                    if present:
                        if fid in known_ids:
                            findings_seen.append(known_ids[fid])
                        else:
                            violations.append(dict(obligation='kani:' + h, engine='kani', playback=None,
                                                   detail='finding region %s is reachable but not listed in known_findings.json' % fid, harness=n))
                    continue
                ob = dict(name='kani:' + h, engine='kani', kind=kind, time_s=r['time_s'], checks=r['checks'],
                          covers='%d/%d' % (r['covers_satisfied'], r['covers_total']))
                real_fail = [f for f in r['failed_checks'] if 'unwinding assertion' not in f['desc']
                             and not re.search(r'not currently supported|unsupported', f['desc'])]
                if r['status'] == 'ok':
                    need = m.get('min_covers', r['covers_total'])     # a harness instantiated at a bound where some cover is unreachable states how many must be hit
                    if r['covers_total'] and r['covers_satisfied'] < need and not m.get('allow_unsat_covers'):
                        ob['status'] = 'undecided'
                        undecided.append('kani %s: vacuity guard: only %d of %d covers satisfied' % (h, r['covers_satisfied'], r['covers_total']))
                    else:
                        ob['status'] = 'ok'
                elif r['status'] == 'failed' and real_fail and not r['tool_problem']:
                    ob['status'] = 'failed'
                    violations.append(dict(obligation=ob['name'], engine='kani', harness=n, playback=None,
                                           detail='\n'.join('%s  (%s:%s in %s)' % (f['desc'], f['file'], f['line'], f['fn']) for f in real_fail)))
                else:
                    ob['status'] = 'undecided'
                    undecided.append('kani %s: %s' % (h, (r['text'] or 'no result')[-1200:]))
                obligations.append(ob)
            # counterexamples: re-run each failed harness alone with concrete playback
            for v in violations:
                if v['engine'] == 'kani' and v.get('harness') and os.environ.get('VERIF_NO_PLAYBACK') != '1':
                    r2, out2, cmd2, _, _ = kani_unit.run(crate, [v['harness']], jobs=1, timeout_s=1200, playback=True)
                    v['playback'] = r2[v['harness']].get('playback')
                    v['playback_cmd'] = cmd2
    finally:
        if root and not a.keep:
            kani_unit.cleanup(root)
    for e in edits:
        trusted.add('kani scratch-copy edit: ' + e)
    for t in spec.get('trusted', []):
        trusted.add(t)
    if hs:
        trusted.add('kani: stand-in crates for dashmap / hashbrown / bloomfilter (assumed dependency contracts, given executably); parking_lot_core contended paths stubbed to panic')

    # ---------------- Verus failure paired with a Kani twin for inputs
    # (native replays are attempted for every violation that has a replay recipe)
    replay_paths = []
    for v in violations:
        rp = native_replay.write_replay(pid, v, spec, REPO)
        replay_paths.append(rp)

    # ---------------- verdict
    complete = [o for o in obligations if o['kind'] in ('complete', 'fn', 'lemma')]
    bounded = [o for o in obligations if o['kind'] == 'bounded']
    floor = spec.get('floor', {}).get(tier, 1)
    if len(obligations) < floor and not undecided:
        undecided.append('obligation count %d is below the floor %d recorded for the pinned tree' % (len(obligations), floor))
    wall = time.time() - t0
    ev = dict(
        property_id=pid, tier=tier, seed=seed, level=spec.get('level', 'proof'),
        coverage=dict(
            obligations=len(complete), discharged=len([o for o in complete if o['status'] == 'ok']),
            bounded_checks=len(bounded), bounded_passed=len([o for o in bounded if o['status'] == 'ok']),
            bounded_note=spec.get('bounded_note', ''),
            region_covers=[o for o in obligations if o['kind'] == 'cover'],
            checker_cmd=' ; '.join(cmds) if cmds else 'none',
            trusted_base=sorted(trusted),
            backends=sorted(backends), solver_time_s=round(solver_time, 3),
            functions_under_contract=functions + spec.get('kani_functions', []),
            samples=[dict(name=o['name'], kind=o['kind'], status=o['status'], time_s=o.get('time_s')) for o in obligations][:400],
            undecided=undecided,
            known_findings_present=[f['id'] for f in findings_seen],
            explanation=spec.get('explanation', ''),
            not_covered=spec.get('not_covered', []),
        ),
        assumptions=spec.get('assumptions', []),
        wall_s=round(wall, 2), violations=len(violations),
    )
    os.makedirs(os.path.join(VERIF, 'evidence'), exist_ok=True)
    json.dump(ev, open(os.path.join(VERIF, 'evidence', pid + '.json'), 'w'), indent=1)
    for f in findings_seen:
        print('KNOWN-FINDING: property=%s %s: %s' % (pid, f['id'], f['what_fails']))
    print('%s tier=%s: %d/%d obligations discharged, %d/%d bounded checks passed, %d region covers, wall %.0fs'
          % (pid, tier, ev['coverage']['discharged'], ev['coverage']['obligations'], ev['coverage']['bounded_passed'],
             ev['coverage']['bounded_checks'], len(ev['coverage']['region_covers']), wall))
    if violations:
        for v, rp in zip(violations, replay_paths):
            tail = '' if v.get('replayed') else ' no-failing-input-found'
            print('  failed obligation: %s' % v['obligation'])
            print('VIOLATION property=%s replay=%s%s' % (pid, rp, tail))
        return 1
    if undecided:
        for u in undecided:
            print('UNDECIDED', u[:1500])
        return 2
    return 0


if __name__ == '__main__':
    sys.exit(main())
