#!/usr/bin/env python3
"""Kani path: scratch copy of /repo's current working tree -> add-only injection of harness
modules -> `cargo kani` on selected harnesses -> per-harness results.

Nothing in the checked functions is rewritten.  What is added to the scratch copy (all add-only):
  * one line `#[cfg(kani)] #[path = ".."] mod verif_kani;` at the end of each target module file;
  * `#[cfg(kani)] #[path = ".."] pub(crate) mod verif_stubs;` at the end of src/lib.rs;
  * `parking_lot_core = "=0.9.7"` in [dependencies] (same version as Cargo.lock; needed to name stub targets);
  * ../.cargo/config.toml with [net] offline and [patch.crates-io] for the stand-in crates;
  * instrumentation X1/X2/X3 (see instrument.py), each recorded in the returned `edits` list.
"""
import json
import os
import re
import shutil
import subprocess
import sys
import tempfile
import time

VERIF = os.path.dirname(os.path.dirname(os.path.abspath(__file__)))
REPO = os.environ.get('VERIF_REPO', '/repo')
sys.path.insert(0, os.path.dirname(os.path.abspath(__file__)))
import instrument  # noqa: E402

# target module file -> harness file (child module `verif_kani` of that module)
INJECT = {
    'src/cache/policy/cache_weight.rs': 'cache_weight.rs',
    'src/cache/policy/admission_policy.rs': 'admission_policy.rs',
    'src/cache/stats/mod.rs': 'stats.rs',
    'src/cache/store/stored_value.rs': 'stored_value.rs',
    'src/cache/store/mod.rs': 'store.rs',
    'src/cache/clock.rs': 'clock.rs',
    'src/cache/command/acknowledgement.rs': 'acknowledgement.rs',
    'src/cache/command/command_executor.rs': 'command_executor.rs',
    'src/cache/expiration/mod.rs': 'expiration.rs',
    'src/cache/lfu/frequency_counter.rs': 'frequency_counter.rs',
    'src/cache/lfu/tiny_lfu.rs': 'tiny_lfu.rs',
    'src/cache/lfu/doorkeeper.rs': 'doorkeeper.rs',
    'src/cache/put_or_update.rs': 'put_or_update.rs',
    'src/cache/unique_id/increasing_id_generator.rs': 'increasing_id_generator.rs',
    'src/cache/config/weight_calculation.rs': 'weight_calculation.rs',
    'src/cache/cached.rs': 'cached.rs',
    'src/cache/pool.rs': 'pool.rs',
    'src/cache/config/mod.rs': 'config.rs',
}
HARNESS_DIR = os.environ.get('VERIF_HARNESS_DIR', os.path.join(VERIF, 'kani', 'harness'))
TARGET_DIR = os.environ.get('VERIF_KANI_TARGET', os.path.join(VERIF, 'build', 'kani-target'))

CONFIG_TOML = '''[net]
offline = true
[patch.crates-io]
ahash = {{ path = "{v}/kani/vendor/ahash" }}
dashmap = {{ path = "{v}/kani/standins/dashmap" }}
hashbrown = {{ path = "{v}/kani/standins/hashbrown" }}
bloomfilter = {{ path = "{v}/kani/standins/bloomfilter" }}
'''


def prepare(repo=REPO, only=None, real_deps=False):
    """returns (scratch_root, crate_dir, edits[])"""
    root = tempfile.mkdtemp(prefix='verif-kani-')
    crate = os.path.join(root, 'repo')
    os.makedirs(crate)
    shutil.copytree(os.path.join(repo, 'src'), os.path.join(crate, 'src'))
    for f in ('Cargo.toml', 'Cargo.lock'):
        shutil.copy(os.path.join(repo, f), os.path.join(crate, f))
    os.makedirs(os.path.join(root, '.cargo'))
    with open(os.path.join(root, '.cargo', 'config.toml'), 'w') as f:
        cfg = CONFIG_TOML.format(v=VERIF)
        if real_deps:   # native replays run against the real dependencies (only the ahash build fix stays)
            cfg = '\n'.join(l for l in cfg.split('\n') if 'standins' not in l)
        f.write(cfg)
    edits = []
    # Cargo.toml: drop dev-dependencies/bench (not needed, keeps the offline resolve small), add parking_lot_core
    ct = open(os.path.join(crate, 'Cargo.toml')).read()
    ct = re.sub(r'\[dev-dependencies\].*?(?=\n\[)', '', ct, flags=re.S)
    ct = re.sub(r'\[\[bench\]\].*?(?=\n\[|\Z)', '', ct, flags=re.S)
    ct = ct.replace('[dependencies]', '[dependencies]\nparking_lot_core = "=0.9.7"')
    ct += '\n[lints.rust]\nunexpected_cfgs = { level = "allow" }\n'
    open(os.path.join(crate, 'Cargo.toml'), 'w').write(ct)
    edits.append('Cargo.toml: [dev-dependencies] and [[bench]] removed, parking_lot_core = "=0.9.7" added (scratch copy only)')
    for target, h in INJECT.items():
        hp = os.path.join(HARNESS_DIR, h)
        if not os.path.exists(hp):
            continue
        if only is not None and h not in only:
            continue
        tp = os.path.join(crate, target)
        if not os.path.exists(tp):
            raise instrument.InstrumentError('target module %s no longer exists' % target)
        with open(tp, 'a') as f:
            f.write('\n#[cfg(kani)] #[path = "%s"] pub(crate) mod verif_kani;\n' % hp)
        edits.append('%s: child module verif_kani <- %s' % (target, h))
    lib = os.path.join(crate, 'src', 'lib.rs')
    libtext = open(lib).read()
    open(lib, 'w').write('#![cfg_attr(kani, recursion_limit = "512")]\n' + libtext)
    edits.append('src/lib.rs: `#![cfg_attr(kani, recursion_limit = "512")]` prepended (harness macro expansion), module verif_stubs appended')
    with open(lib, 'a') as f:
        f.write('\n#[cfg(kani)] #[path = "%s"] pub(crate) mod verif_stubs;\n' % os.path.join(HARNESS_DIR, 'stubs.rs'))
    edits += instrument.apply_all(crate)
    if real_deps:
        edits.append(instrument.strip_test_modules(crate))
    return root, crate, edits


def cleanup(root):
    shutil.rmtree(root, ignore_errors=True)


RESULT_RE = re.compile(r'^Checking harness (\S+?)\.\.\.', re.M)


def _parse_block(p):
    st = 'unknown'
    if re.search(r'VERIFICATION:- SUCCESSFUL', p):
        st = 'ok'
    elif re.search(r'VERIFICATION:- FAILED', p):
        st = 'failed'
    failed = []
    for m in re.finditer(r'Failed Checks: (.*)\n\s*File: "([^"]*)", line (\d+)(?:, in (\S+))?', p):
        failed.append(dict(desc=m.group(1).strip(), file=m.group(2), line=int(m.group(3)), fn=m.group(4) or ''))
    covers = {}
    for m in re.finditer(r'Check \d+: (\S+)\.cover\.\d+\n\s*- Status: (\w+)\n\s*- Description: "((?:[^"\\]|\\.)*)"', p):
        covers[m.group(3)] = m.group(2)
    cm = re.search(r'\*\* (\d+) of (\d+) cover properties satisfied', p)
    tm = re.search(r'Verification Time: ([\d.]+)s', p)
    sm = re.search(r'\*\* (\d+) of (\d+) failed(?: \(([^)]*)\))?', p)
    tool_problem = bool(re.search(r'CBMC failed|out of memory|timed out|CBMC timed out|Kani crashed|internal compiler error|panicked at', p))
    undet = bool(re.search(r'undetermined', sm.group(3) or '')) if sm else False
    unwinding = any('unwinding assertion' in f['desc'] for f in failed)
    unsupported = any(re.search(r'is not currently supported by Kani|unsupported', f['desc']) for f in failed)
    pb = None
    # Kani prints one playback test per failed check AND per satisfied cover: take one for a failed check
    pbs = re.findall(r'Concrete playback unit test for `[^`]*`:\n```\n(.*?)```', p, re.S)
    for cand in pbs:
        if not re.search(r'Check for `cover`', cand):
            pb = cand
            break
    if pb is None and pbs:
        pb = pbs[0]
    return dict(status=st, failed_checks=failed, covers=covers,
                covers_satisfied=int(cm.group(1)) if cm else len([v for v in covers.values() if v == 'SATISFIED']),
                covers_total=int(cm.group(2)) if cm else len(covers),
                time_s=float(tm.group(1)) if tm else None,
                checks=int(sm.group(2)) if sm else len(re.findall(r'(?m)^Check \d+:', p)),
                undetermined=undet or unwinding, unsupported=unsupported, tool_problem=tool_problem, playback=pb,
                text=p[-8000:] if st != 'ok' else '')


def parse_output(out, harnesses):
    """per-harness dict(status, failed_checks[], covers.., time_s, playback).  Handles the regular
    single-harness format and the terse `Thread N:` format of parallel runs."""
    res = {}
    lines = out.split('\n')
    thread_h = {}
    cur_thread, buf = None, []

    def flush():
        if cur_thread is not None and cur_thread in thread_h and buf:
            blk = '\n'.join(buf)
            if 'VERIFICATION' in blk or 'CBMC' in blk:
                res[thread_h[cur_thread]] = _parse_block(blk)
    for ln in lines:
        m = re.match(r'(?:Thread (\d+): )?Checking harness (\S+?)\.\.\.', ln)
        if m:
            flush()
            t = m.group(1) or '-'
            thread_h[t] = m.group(2)
            cur_thread, buf = (t if m.group(1) is None else None), []
            continue
        m = re.match(r'Thread (\d+): ?(.*)$', ln)
        if m:
            if m.group(2).strip().startswith('- Stub:'):
                continue
            flush()
            cur_thread, buf = m.group(1), [m.group(2)]
            continue
        if ln.startswith('Manual Harness Summary') or ln.startswith('Complete - '):
            flush()
            cur_thread, buf = None, []
            continue
        if cur_thread is not None:
            buf.append(ln)
    flush()
    return res


def run(crate, harnesses, jobs=8, timeout_s=1500, per_harness_timeout='600s', playback=False, extra=()):
    """harnesses: fully qualified names. returns (per-harness results, raw output, cmd, wall)"""
    cmd = ['cargo', 'kani', '--target-dir', TARGET_DIR, '-Z', 'stubbing', '-Z', 'unstable-options',
           '--harness-timeout', per_harness_timeout, '--exact', '--default-unwind', '8']
    if playback:
        cmd += ['-Z', 'concrete-playback', '--concrete-playback=print']
    for h in harnesses:
        cmd += ['--harness', h]
    if jobs and jobs > 1 and len(harnesses) > 1:
        cmd += ['-j', str(min(jobs, len(harnesses))), '--output-format', 'terse']
    cmd += list(extra)
    env = dict(os.environ)
    env['CARGO_NET_OFFLINE'] = 'true'
    env.pop('RUSTUP_TOOLCHAIN', None)
    t0 = time.time()
    try:
        p = subprocess.run(cmd, cwd=crate, stdout=subprocess.PIPE, stderr=subprocess.STDOUT, text=True, env=env, timeout=timeout_s)
        out, rc = p.stdout, p.returncode
    except subprocess.TimeoutExpired as e:
        out = (e.stdout or b'').decode() if isinstance(e.stdout, bytes) else (e.stdout or '')
        out += '\n[verif] cargo kani timed out after %ss\n' % timeout_s
        rc = -9
    wall = time.time() - t0
    res = parse_output(out, harnesses)
    for h in harnesses:
        if h not in res:
            res[h] = dict(status='unknown', failed_checks=[], covers={}, covers_satisfied=0, covers_total=0, time_s=None, checks=0,
                          undetermined=True, unsupported=False, tool_problem=True, playback=None,
                          text='no result for this harness in the output\n' + out[-3000:])
    return res, out, ' '.join(cmd), wall, rc


if __name__ == '__main__':
    hs = sys.argv[1:]
    root, crate, edits = prepare()
    print(root, *edits, sep='\n  ')
    try:
        res, out, cmd, wall, rc = run(crate, hs, playback=('--playback' in os.environ.get('VK', '')))
        print(cmd)
        open('/tmp/kani_last.log', 'w').write(out)
        for h, r in res.items():
            print('%-70s %-8s %6s s checks=%s covers=%s/%s %s' % (h, r['status'], r['time_s'], r['checks'], r['covers_satisfied'], r['covers_total'],
                                                                  'TOOL' if r['tool_problem'] else ('UNDET' if r['undetermined'] else '')))
            for f in r['failed_checks']:
                print('      FAILED:', f)
        print('rc', rc, 'wall %.1f' % wall)
        if any(r['status'] == 'unknown' for r in res.values()):
            print(out[-5000:])
    finally:
        if not os.environ.get('VK_KEEP'):
            cleanup(root)
