#!/usr/bin/env python3
"""Assemble a Verus unit from a .vtpl template plus text extracted from /repo's current working
tree, run `verus` on it (single file, offline) and parse the per-function results.

Template directives (every directive is a line starting with //@@):

  //@@ item file="src/..rs" kind=const name=BINARY_ONE [sub="/pat/=>repl"]
  //@@ fn file="src/..rs" impl="^impl Row" name=increment_at [nth=0] [rules=T1,T3] [ret=r]
  //@@ sigsub /regex/ => replacement         (mechanical signature edit, stated in evidence)
  //@@ ghostparam Tracked(w): Tracked<&mut World>          (T6: ghost, erased parameter appended to the parameter list)
  //@@ ghostarg callee=add,delete arg="Tracked(&mut *w)"  (T6: the ghost argument appended at each call of the listed callees)
  //@@ closure 1                               (T7: typed header + ensures for the 1st closure literal)
  //@@ entry                                   (ghost statements placed at function entry)
  //@@ attrs
  ...                                         (attribute lines placed before the fn)
  //@@ contract
  ...                                         (requires / ensures / decreases clauses)
  //@@ proof
  ...                                         (lemma calls, wrapped in proof { } at fn entry)
  //@@ loop 1
  ...                                         (invariant / decreases for the 1st loop)
  //@@ looptail 1
  ...                                         (lemma calls, wrapped in proof { } at the end of the 1st loop's body)
  //@@ end

Everything else is copied as is.
"""
import json
import os
import re
import shlex
import subprocess
import sys
import time

sys.path.insert(0, os.path.dirname(os.path.abspath(__file__)))
from extract import ExtractError, extract_fn, extract_item, extract_closure_fn, extract_loop_body_fn  # noqa: E402

VERIF = os.path.dirname(os.path.dirname(os.path.abspath(__file__)))
REPO = os.environ.get('VERIF_REPO', '/repo')


def parse_kv(s):
    d = {}
    for tok in shlex.split(s):
        if '=' in tok:
            k, v = tok.split('=', 1)
            d[k] = v
    return d


PURE_METHODS = ('len', 'is_some', 'is_none', 'is_empty')
_pulled_helpers = set()


def pull_pure_helpers(repo, spec, fn_text, template_text):
    """A function under contract calls `self.h(..)` / `Self::h(..)` where `h` is declared neither by the template nor among the
    extracted functions, but IS a private function of the same impl block whose body is one side-effect-free expression (field
    reads, arithmetic, comparisons, `.len()`-like calls): the helper is pulled in verbatim and given the postcondition
    `r == <its own body>`. Anything else (statements, calls, macros) is left alone - the unit then fails to compile: UNDECIDED."""
    from extract import Source, code_mask, sha256 as _sha
    res = []
    try:
        src = Source(repo + '/' + spec['file'])
    except OSError:
        return res
    for name in sorted(set(re.findall(r'\b(?:self\s*\.|Self\s*::)\s*(\w+)\s*\(', code_mask(fn_text)))):
        if re.search(r'\bfn\s+' + name + r'\b', template_text) or re.search(r'name=' + name + r'\b', template_text) or (spec['file'], name) in _pulled_helpers:
            continue
        try:
            loc = src.find_fn(spec.get('impl') or None, name, 0)
        except ExtractError:
            continue
        sig = src.text[loc['start']:loc['body_open']]
        body = src.text[loc['body_open']:loc['end']]
        inner = body.strip()[1:-1].strip()
        imask = code_mask(inner)
        if re.match(r'\s*pub\b', sig) or ';' in imask or '!' in re.sub(r'!=', '', imask).replace('!(', '(').replace('! ', ' ') and re.search(r'\w+!\s*[\(\[\{]', imask):
            continue
        calls = re.findall(r'\.\s*(\w+)\s*\(', imask) + re.findall(r'(?<![\.\w])(\w+)\s*\(', imask)
        if any(c not in PURE_METHODS for c in calls) or '&mut' in imask or '->' not in code_mask(sig):
            continue
        m = re.search(r'->\s*([^\{]+?)\s*$', sig.strip())
        if not m:
            continue
        new_sig = sig.strip()[:m.start()] + '-> (verif_r: %s)' % m.group(1).strip()
        txt = '%s\n        ensures verif_r == (%s),\n    %s' % (new_sig, inner, body)
        _pulled_helpers.add((spec['file'], name))
        res.append((txt, dict(file=spec['file'], impl=loc['header'], fn=name + ' (auto-pulled helper)', lines=[src.line_of(loc['start']), src.line_of(loc['end'] - 1)],
                              sha256=_sha(src.text[loc['start']:loc['end']]), rules_fired={'auto-helper': 1}, has_contract=True)))
    return res


def assemble(tpl_path, repo=REPO, drop_lines=()):
    """returns (text, functions_under_contract[], items[], line_map) ; raises ExtractError"""
    out, fns, items = [], [], []
    _pulled_helpers.clear()
    options = set()
    lines = open(tpl_path, encoding='utf-8').read().split('\n')
    for d in drop_lines:
        n0 = len(lines)
        lines = [l for l in lines if l.strip() != d.strip()]
        if len(lines) != n0 - 1:
            raise ExtractError('%s: probe line to drop not found exactly once: %s' % (tpl_path, d))
    # names of the collaborator stand-in methods (declared in the template itself) that take the ghost World / Channel
    world_methods = sorted(set(re.findall(r'\bfn\s+(\w+)\s*(?:<[^>(]*>)?\s*\([^{;]*?Tracked\(\w+\)\s*:\s*Tracked<&mut World', '\n'.join(lines))))
    i = 0
    while i < len(lines):
        ln = lines[i]
        st = ln.strip()
        if st.startswith('//@@ option '):
            options.add(st[len('//@@ option '):].strip())
            i += 1
        elif st.startswith('//@@ item '):
            kv = parse_kv(st[len('//@@ item '):])
            subs = []
            for sk in ('sub', 'sub2', 'sub3', 'sub4'):
                if sk in kv:
                    m = re.match(r'/(.*)/=>(.*)$', kv[sk], re.S)
                    subs.append((m.group(1), m.group(2)))
            txt, info = extract_item(repo, kv['file'], kv['kind'], kv['name'], subs)
            items.append(info)
            out.append('// extracted: %s %s  (%s:%d)' % (kv['kind'], kv['name'], kv['file'], info['lines'][0]))
            out.append(txt.rstrip())
            i += 1
        elif st.startswith('//@@ fn ') or st.startswith('//@@ closurefn ') or st.startswith('//@@ loopbodyfn '):
            is_closure = st.startswith('//@@ closurefn ')
            is_loopbody = st.startswith('//@@ loopbodyfn ')
            kv = parse_kv(st.split(' ', 2)[2])
            spec = dict(file=kv['file'], impl=kv.get('impl', ''), fn=kv['name'], nth=kv.get('nth', 0), let=kv.get('let', ''), params=kv.get('params', ''), var=kv.get('var', ''),
                        rules=[r for r in kv.get('rules', '').split(',') if r], ret=kv.get('ret', 'r'),
                        loops={}, loop_tails={}, loop_vars={}, sig_sub=[], ghost_args=[], ghost_params=[], closures={}, derefs=[])
            section, buf = None, []
            i += 1

            def flush():
                if section is None:
                    return
                txt = '\n'.join(buf)
                if section in ('contract', 'proof', 'attrs', 'entry', 'signature'):
                    spec[section] = txt
                elif isinstance(section, tuple) and section[0] == 'closure':
                    spec['closures'][section[1]] = txt
                elif isinstance(section, tuple) and section[0] == 'tail':
                    spec['loop_tails'][section[1]] = txt
                else:
                    spec['loops'][section] = txt
            while i < len(lines):
                st2 = lines[i].strip()
                if st2.startswith('//@@ end'):
                    flush()
                    break
                m = re.match(r'//@@ (contract|proof|attrs|entry|signature)\s*$', st2)
                m2 = re.match(r'//@@ loop (\d+)(?:\s+var=(\w+))?\s*$', st2)
                m3 = re.match(r'//@@ sigsub /(.*)/ =>\s?(.*)$', st2)
                m4 = re.match(r'//@@ looptail (\d+)\s*$', st2)
                if m:
                    flush()
                    section, buf = m.group(1), []
                elif m2:
                    flush()
                    section, buf = int(m2.group(1)), []
                    if m2.group(2):
                        spec['loop_vars'][int(m2.group(1))] = m2.group(2)
                elif m4:
                    flush()
                    section, buf = ('tail', int(m4.group(1))), []
                elif re.match(r'//@@ closure (\d+)\s*$', st2):
                    flush()
                    section, buf = ('closure', int(re.match(r'//@@ closure (\d+)', st2).group(1))), []
                elif st2.startswith('//@@ ghostparam '):
                    spec['ghost_params'].append(st2[len('//@@ ghostparam '):].strip())
                elif st2.startswith('//@@ ascribe '):
                    nm, ty = st2[len('//@@ ascribe '):].split(':', 1)
                    spec.setdefault('ascribe', []).append((nm.strip(), ty.strip()))
                elif st2.startswith('//@@ deref '):
                    kv2 = parse_kv(st2[len('//@@ deref '):])
                    spec['derefs'].append((kv2['var'], kv2['fields'].split(',')))
                elif st2.startswith('//@@ ghostarg '):
                    kv2 = parse_kv(st2[len('//@@ ghostarg '):])
                    cal = [c for c in kv2.get('callee', '').split(',') if c]
                    # receivers=a,b: every method of a collaborator stand-in that takes the ghost World, called on one of these receivers
                    for rcv in [c for c in kv2.get('receivers', '').split(',') if c]:
                        cal += ['%s.%s' % (rcv, mname) for mname in world_methods]
                    spec['ghost_args'].append((cal, kv2['arg']))
                elif m3:
                    spec['sig_sub'].append((m3.group(1), m3.group(2)))
                elif st2.startswith('//@@'):
                    raise ExtractError('%s:%d: unknown directive %s' % (tpl_path, i + 1, st2))
                else:
                    buf.append(lines[i])
                i += 1
            else:
                raise ExtractError('%s: fn block without //@@ end' % tpl_path)
            # names the template itself knows (stand-in methods, functions it extracts): calls to other private helpers of the impl block are inlined
            spec['known_names'] = set(re.findall(r'\bfn\s+(\w+)\b', '\n'.join(lines))) | set(re.findall(r'\bname=(\w+)\b', '\n'.join(lines)))
            txt, info = (extract_closure_fn(repo, spec) if is_closure else (extract_loop_body_fn(repo, spec) if is_loopbody else extract_fn(repo, spec)))
            info['has_contract'] = bool(spec.get('contract'))
            fns.append(info)
            if not is_closure and not is_loopbody:
                for htxt, hinfo in pull_pure_helpers(repo, spec, txt, '\n'.join(lines)):
                    fns.append(hinfo)
                    out.append('    // extracted helper (auto: a private one-expression function of the same impl block that the template does not know;')
                    out.append('    // its postcondition is its own body): %s :: %s (lines %d-%d, sha256 %s)' % (hinfo['file'], hinfo['fn'], hinfo['lines'][0], hinfo['lines'][1], hinfo['sha256'][:12]))
                    out.append('    ' + htxt.rstrip())
            out.append('    // extracted: %s :: %s :: %s  (lines %d-%d, sha256 %s, rules %s)' % (
                info['file'], info['impl'], info['fn'], info['lines'][0], info['lines'][1], info['sha256'][:12], info['rules_fired']))
            out.append('    ' + txt.rstrip())
            i += 1
        elif st.startswith('//@@'):
            raise ExtractError('%s:%d: unknown directive %s' % (tpl_path, i + 1, st))
        else:
            out.append(ln)
            i += 1
    # visibility is irrelevant to the proof: `pub(crate)` -> `pub` so that spec functions may mention every extracted item
    text = '\n'.join(out) + '\n'
    # constants: an extracted function may mention a `const` of its source file that the template does not declare (a constant
    # introduced after the contract was written): the item is pulled in verbatim from that file
    declared = set(re.findall(r'\b(?:const|static)\s+([A-Z][A-Z0-9_]+)\b', text))
    pulled = []
    for info in fns:
        try:
            src_text = open(os.path.join(repo, info['file']), encoding='utf-8').read()
        except OSError:
            continue
        lo, hi = info['lines']
        body_text = '\n'.join(src_text.split('\n')[lo - 1:hi])
        for name in sorted(set(re.findall(r'\b([A-Z][A-Z0-9_]{2,})\b', body_text))):
            if name in declared:
                continue
            mm = re.search(r'^[ \t]*(?:pub(?:\([a-z]+\))?\s+)?const\s+' + name + r'\s*:[^=;]+=[^;]+;', src_text, re.M)
            if mm:
                declared.add(name)
                pulled.append('// extracted constant (auto, %s): \n%s' % (info['file'], mm.group(0).strip()))
                items.append(dict(file=info['file'], kind='const', name=name, auto=True))
    if pulled:
        k = text.index('verus! {') + len('verus! {')
        text = text[:k] + '\n' + '\n'.join(pulled) + '\n' + text[k:]
    if 'keep_visibility' not in options:
        text = re.sub(r'\bpub\s*\(\s*crate\s*\)', 'pub', text)
    return text, fns, items


CHEATS = [r'\bassume\s*\(', r'\badmit\s*\(', r'verifier::external_body', r'\bassume_specification\b',
          r'verifier::external\b', r'verifier::exec_allows_no_decreases_clause', r'verifier::trusted',
          r'verifier::external_fn_specification', r'verifier::external_type_specification']


def scan_trusted(text):
    """mechanical scan of the assembled file for every escape hatch; returns list of strings"""
    found = []
    lines = text.split('\n')
    for idx, ln in enumerate(lines):
        code = ln.split('//')[0]
        for c in CHEATS:
            if re.search(c, code):
                # name the following fn if any
                name = ''
                for j in range(idx, min(idx + 6, len(lines))):
                    m = re.search(r'\bfn\s+(\w+)', lines[j])
                    if m:
                        name = m.group(1)
                        break
                found.append('%s @line %d%s' % (re.sub(r'\\[bs]\*?|\\\(', '', c), idx + 1, (' -> fn ' + name) if name else ''))
    return found


def run_verus(rs_path, rlimit=20, threads=8, extra=()):
    cmd = ['verus', rs_path, '--output-json', '--time', '--triggers-mode', 'silent',
           '--rlimit', str(rlimit), '--num-threads', str(threads), '--multiple-errors', '4'] + list(extra)
    t0 = time.time()
    env = dict(os.environ)
    p = subprocess.run(cmd, stdout=subprocess.PIPE, stderr=subprocess.PIPE, text=True, cwd=os.path.dirname(rs_path), env=env)
    wall = time.time() - t0
    js = None
    try:
        k = p.stdout.index('{')
        js = json.loads(p.stdout[k:])
    except Exception:
        js = None
    return dict(cmd=' '.join(cmd), rc=p.returncode, json=js, stderr=p.stderr, stdout=p.stdout if js is None else '', wall=wall)


VERIFICATION_ERRORS = re.compile(
    r'postcondition not satisfied|precondition not satisfied|assertion failed|invariant not satisfied'
    r'|bitvector assertion not satisfied|possible arithmetic (?:underflow/overflow|overflow|underflow)'
    r'|possible division by zero|decreases not satisfied|nonlinear_arith|assertion not satisfied'
    r'|possible bit shift underflow/overflow|index out of bounds|failed to prove|unable to prove|not satisfied|possible .* overflow')


def error_blocks(stderr):
    """[(message, file_line or None, block_text)] for every `error...` diagnostic"""
    res = []
    for b in re.split(r'\n(?=error)', '\n' + stderr):
        b = b.strip()
        if not b.startswith('error') or 'aborting due to' in b:
            continue
        first = b.split('\n', 1)[0]
        m = re.search(r'-->\s*([^\s:]+):(\d+):(\d+)', b)
        res.append((first, int(m.group(2)) if m else None, b))
    return res


def enclosing_fn(text_lines, line_no):
    """name of the fn whose text contains line_no (1-based) in the assembled file: the closest
    preceding `fn name` at lower or equal indentation"""
    impl = ''
    name = None
    for k in range(min(line_no, len(text_lines)) - 1, -1, -1):
        m = re.match(r'\s*(?:pub(?:\([^)]*\))?\s+)?(?:open\s+|closed\s+|uninterp\s+)?(?:proof\s+|spec\s+|exec\s+)?fn\s+(\w+)', text_lines[k])
        if m and name is None:
            name = m.group(1)
            continue
        if name is not None:
            mi = re.match(r'impl(?:<[^>]*>)?\s+([\w:]+)', text_lines[k])
            if mi:
                impl = mi.group(1)
                # only counts if the fn is inside this impl (impl closed before fn?) - approximate by indentation
                break
            if re.match(r'\}', text_lines[k]):
                break
    if name is None:
        return None
    return (impl + '::' if impl and text_lines and True else '') + name


def results(run, crate, text=''):
    """-> (status, obligations[], errors_text)
    status: 'ok' | 'failed' | 'undecided' (compile error, rlimit, crash)"""
    js = run['json']
    if js is None:
        return 'undecided', [], 'verus produced no JSON (rc=%s)\n%s\n%s' % (run['rc'], run['stderr'][-4000:], run['stdout'][-2000:])
    vr = js.get('verification-results', {})
    obs = []
    try:
        mods = js['times-ms']['smt']['smt-run-module-times']
    except Exception:
        mods = []
    for m in mods:
        for f in m.get('function-breakdown', []):
            name = f['function']
            if not name.startswith(crate + '::'):
                continue
            obs.append(dict(name=name[len(crate) + 2:], mode=f.get('mode:', f.get('mode', '')),
                            success=bool(f['success']), time_us=f.get('time-micros', 0), rlimit=f.get('rlimit', 0)))
    err = run['stderr']
    blocks = error_blocks(err)
    tlines = text.split('\n')
    other = []
    for (msg, line, blk) in blocks:
        if re.search(r'[Rr]esource limit|rlimit', blk.split('\n')[0]):
            other.append(msg)
            continue
        if VERIFICATION_ERRORS.search(msg) and not re.match(r'error\[E\d+\]', msg):
            fn = enclosing_fn(tlines, line) if line else None
            hit = False
            for o in obs:
                if fn and (o['name'] == fn or o['name'].endswith('::' + fn.split('::')[-1]) and fn.split('::')[0] in o['name']):
                    o['success'] = False
                    o.setdefault('errors', []).append(msg)
                    hit = True
            if not hit:
                obs.append(dict(name=fn or ('line %s' % line), mode='query', success=False, time_us=0, rlimit=0, errors=[msg]))
        else:
            other.append(msg)
    if vr.get('encountered-vir-error') or other or (vr.get('encountered-error') and not obs):
        # compile errors, unsupported constructs, time-outs: never a violation
        return 'undecided', obs, err[-6000:]
    if any(not o['success'] for o in obs):
        return 'failed', obs, err[-12000:]
    if not vr.get('success'):
        return 'undecided', obs, err[-6000:]
    return 'ok', obs, err[-2000:]


def failed_details(stderr):
    """split rustc-style diagnostics into blocks, keep the 'error' ones"""
    blocks = re.split(r'\n(?=error|note: )', stderr)
    return [b.strip() for b in blocks if b.startswith('error') and 'aborting due to' not in b]


def check_unit(unit, tpl_path, build_dir, repo=REPO, rlimit=20, extra=(), drop_lines=(), crate=None):
    os.makedirs(build_dir, exist_ok=True)
    text, fns, items = assemble(tpl_path, repo, drop_lines)
    crate = crate or unit
    rs = os.path.join(build_dir, crate + '.rs')
    with open(rs, 'w') as f:
        f.write(text)
    run = run_verus(rs, rlimit=rlimit, extra=extra)
    status, obs, err = results(run, crate, text)
    # a function that contains a closure WITHOUT a contract cannot be verified against what that closure computes: its failure is
    # inconclusive (UNDECIDED), never a violation
    weak = set()
    for f in fns:
        if f.get('unannotated_closures'):
            weak.add(f.get('verified_as') or re.sub(r' \(auto-pulled helper\)$', '', f['fn']).split('::')[-1])
    inconclusive = []
    for o in obs:
        if not o['success'] and o['name'].split('::')[-1] in weak:
            o['inconclusive'] = True
            inconclusive.append(o['name'])
    inconclusive_only = False
    if status == 'failed' and inconclusive and all(o['success'] or o.get('inconclusive') for o in obs):
        status = 'undecided'
        inconclusive_only = True          # every other function of the unit was verified: only the properties that use the inconclusive ones are undecided
        err = ('inconclusive: %s fail(s) but contain(s) a closure that carries no contract (an unannotated closure has no postcondition, so the '
               'failure does not show a violation)\n' % ', '.join(inconclusive)) + (err or '')
    smt_ms = 0
    try:
        smt_ms = run['json']['times-ms']['smt']['smt-run']
    except Exception:
        pass
    return dict(unit=unit, engine='verus', backend='z3 (via Verus 0.2026.09.13)', status=status, obligations=obs, inconclusive_only=inconclusive_only,
                errors=err, error_blocks=failed_details(run['stderr']) if status == 'failed' else [],
                functions=fns, items=items, trusted=scan_trusted(text), cmd=run['cmd'], wall_s=run['wall'],
                solver_time_s=smt_ms / 1000.0, file=rs)


if __name__ == '__main__':
    unit = sys.argv[1]
    tpl = os.path.join(VERIF, 'contracts', unit + '.vtpl')
    try:
        r = check_unit(unit, tpl, os.path.join(VERIF, 'build', 'verus'))
    except ExtractError as e:
        print('UNDECIDED extract:', e)
        sys.exit(2)
    print(r['status'], 'wall %.1fs smt %.2fs' % (r['wall_s'], r['solver_time_s']))
    for o in r['obligations']:
        if o['mode'] != 'spec' or not o['success']:
            print('  %-6s %-60s %s %6.1fms rlimit=%s' % (o['mode'], o['name'], 'ok' if o['success'] else 'FAILED', o['time_us'] / 1000, o['rlimit']))
    if r['status'] != 'ok':
        print(r['errors'])
    print('trusted:', r['trusted'])
    sys.exit({'ok': 0, 'failed': 1}.get(r['status'], 2))
