"""Property table: which obligations decide which property.

kani harness ids are '<module key>/<harness fn>'; HARNESS_PREFIX maps the key to the module path.
kani_meta[h].kind: 'complete' (loop-free / constant-bounded, full input domain: counts as proved)
                   'bounded'  (Hoare triple from an arbitrary pre-state with at most N resident entries)
kani_meta[h].region_cover: id of the known finding whose input region this harness probes
"""
HARNESS_PREFIX = {
    'cw': 'cache::policy::cache_weight::verif_kani',
    'ap': 'cache::policy::admission_policy::verif_kani',
    'stats': 'cache::stats::verif_kani',
    'sv': 'cache::store::stored_value::verif_kani',
    'store': 'cache::store::verif_kani',
    'clock': 'cache::clock::verif_kani',
    'ack': 'cache::command::acknowledgement::verif_kani',
    'ce': 'cache::command::command_executor::verif_kani',
    'ttl': 'cache::expiration::verif_kani',
    'fc': 'cache::lfu::frequency_counter::verif_kani',
    'lfu': 'cache::lfu::tiny_lfu::verif_kani',
    'pou': 'cache::put_or_update::verif_kani',
    'idgen': 'cache::unique_id::increasing_id_generator::verif_kani',
    'wc': 'cache::config::weight_calculation::verif_kani',
    'cached': 'cache::cached::verif_kani',
    'pool': 'cache::pool::verif_kani',
    'config': 'cache::config::verif_kani',
}

CONC = ('Concurrency is NOT explored: every lock-protected section, every DashMap call and every atomic operation is taken '
        'as one atomic step, memory is sequentially consistent, and only the command worker calls maybe_add/update/add.')

PROPS = {}

PROPS['C14'] = dict(
    level='proof',
    verus=['sketch'],
    kani={'quick': [], 'thorough': []},
    floor={'quick': 25, 'thorough': 25},
    assumptions=[
        'bloomfilter::Bloom is a set with no false negatives (set never removes, check is membership, clear empties); false positives allowed',
        'FrequencyCounter::matrix returns four zeroed rows of total_counters/2 bytes (external_body; iterator adapters are outside the Verus subset)',
        'FrequencyCounter::seeds returns arbitrary u64 values',
        'rewrite rules T1/T2/T3/T5 preserve behaviour (range.for_each == for loop; iter_mut().for_each visits every index once in order)',
        'TinyLFU is only reached through a lock that serialises increment_access/estimate/clear (no interleaving inside one call)',
    ],
    explanation='Verus proves, for all inputs, the contracts of Row/FrequencyCounter/DoorKeeper/TinyLFU functions extracted from the current source, '
                'and the C14 lemmas over those contracts.',
)

PROPS['C12'] = dict(
    level='proof',
    kani={'quick': ['ack/constructors_satisfy_j', 'ack/done_keeps_j_at_every_point', 'ack/done_through_acknowledgement',
                    'ack/poll_from_any_j_state', 'ack/no_lost_wakeup', 'ack/earlier_poller_is_woken'], 'thorough': []},
    floor={'quick': 6, 'thorough': 6},
    assumptions=[
        CONC.replace('Concurrency is NOT explored', 'Interleavings are explored only at statement granularity of done() against one complete poll()'),
        'each top-level statement of done() and the whole of poll() is one atomic step with respect to the three shared cells (one atomic store or one locked section each)',
        'sequential consistency (Release/Acquire orderings are not modelled)',
    ],
    explanation='Owicki-Gries style proof outline: J (done => status != Pending) is checked at every interference point of the real done(); '
                'poll() is checked from every J-state; a poll placed at any interference point is either Ready(real status) or woken later.',
)

PROPS['C16'] = dict(
    level='proof',
    kani={'quick': ['stats/each_increment_touches_only_its_counter', 'stats/stats_type_indices', 'stats/clear_zeroes_everything',
                    'stats/new_starts_at_zero', 'stats/hit_ratio_zero_only_without_hits', 'stats/hit_ratio_is_the_quotient',
                    'cw/update_weight_stats_full_domain'], 'thorough': []},
    floor={'quick': 7, 'thorough': 7},
    assumptions=[CONC, 'AtomicU64::fetch_add wraps modulo 2^64 (hits + misses < 2^64 is assumed for the ratio)'],
)
