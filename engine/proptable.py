"""Property table: which obligations decide which property.

kani harness ids are '<module key>/<harness fn>'; HARNESS_PREFIX maps the key to the module path.
kani_meta[h].kind: 'complete' (loop-free / constant-bounded, full input domain: counts as proved)
                   'bounded'  (Hoare triple from an arbitrary pre-state with at most N resident entries)
kani_meta[h].region_cover: id of the known finding whose input region this harness probes
"""
HARNESS_PREFIX = {
    'cw': 'cache::policy::cache_weight::verif_kani',
    'ap': 'cache::policy::admission_policy::verif_kani',
    'stats': 'cache::stats::verif_kani',
    'sv': 'cache::store::stored_value::verif_kani',
    'store': 'cache::store::verif_kani',
    'clock': 'cache::clock::verif_kani',
    'ack': 'cache::command::acknowledgement::verif_kani',
    'ce': 'cache::command::command_executor::verif_kani',
    'ttl': 'cache::expiration::verif_kani',
    'fc': 'cache::lfu::frequency_counter::verif_kani',
    'lfu': 'cache::lfu::tiny_lfu::verif_kani',
    'pou': 'cache::put_or_update::verif_kani',
    'idgen': 'cache::unique_id::increasing_id_generator::verif_kani',
    'wc': 'cache::config::weight_calculation::verif_kani',
    'cached': 'cache::cached::verif_kani',
    'pool': 'cache::pool::verif_kani',
    'config': 'cache::config::verif_kani',
}

CONC = ('Concurrency is NOT explored: every lock-protected section, every DashMap call and every atomic operation is taken '
        'as one atomic step, memory is sequentially consistent, and only the command worker calls maybe_add/update/add.')

PROPS = {}

PROPS['C14'] = dict(
    level='proof',
    verus=['sketch'],
    kani={'quick': [], 'thorough': []},
    floor={'quick': 25, 'thorough': 25},
    assumptions=[
        'bloomfilter::Bloom is a set with no false negatives (set never removes, check is membership, clear empties); false positives allowed',
        'FrequencyCounter::matrix returns four zeroed rows of total_counters/2 bytes (external_body; iterator adapters are outside the Verus subset)',
        'FrequencyCounter::seeds returns arbitrary u64 values',
        'rewrite rules T1/T2/T3/T5 preserve behaviour (range.for_each == for loop; iter_mut().for_each visits every index once in order)',
        'TinyLFU is only reached through a lock that serialises increment_access/estimate/clear (no interleaving inside one call)',
    ],
    explanation='Verus proves, for all inputs, the contracts of Row/FrequencyCounter/DoorKeeper/TinyLFU functions extracted from the current source, '
                'and the C14 lemmas over those contracts.',
)

PROPS['C12'] = dict(
    level='proof',
    kani={'quick': ['ack/constructors_satisfy_j', 'ack/done_keeps_j_at_every_point', 'ack/done_through_acknowledgement',
                    'ack/poll_from_any_j_state', 'ack/no_lost_wakeup', 'ack/earlier_poller_is_woken'], 'thorough': []},
    floor={'quick': 6, 'thorough': 6},
    assumptions=[
        CONC.replace('Concurrency is NOT explored', 'Interleavings are explored only at statement granularity of done() against one complete poll()'),
        'each top-level statement of done() and the whole of poll() is one atomic step with respect to the three shared cells (one atomic store or one locked section each)',
        'sequential consistency (Release/Acquire orderings are not modelled)',
    ],
    explanation='Owicki-Gries style proof outline: J (done => status != Pending) is checked at every interference point of the real done(); '
                'poll() is checked from every J-state; a poll placed at any interference point is either Ready(real status) or woken later.',
)

PROPS['C16'] = dict(
    level='proof',
    title='Statistics are exact at quiescence',
    kani={'quick': ['stats/each_increment_touches_only_its_counter', 'stats/stats_type_indices', 'stats/clear_zeroes_everything',
                    'stats/new_starts_at_zero', 'stats/hit_ratio_zero_only_without_hits', 'stats/hit_ratio_is_the_quotient_small',
                    'cw/update_weight_stats_full_domain',
                    'store/get_n2', 'store/get_ref_n2', 'store/is_present_n2', 'store/put_n2', 'store/delete_n2', 'store/update_n2',
                    'cw/add_n2', 'cw/delete_n2', 'cw/update_outside_region_n2'],
          'thorough': ['store/get_n3', 'store/put_n3', 'store/delete_n3', 'cw/add_n3', 'cw/delete_n3', 'cw/update_outside_region_n3']},
    kani_meta={
        'stats/hit_ratio_is_the_quotient_small': dict(kind='bounded', note='hits, misses < 32'),
        'store/get_n2': dict(kind='bounded'), 'store/get_ref_n2': dict(kind='bounded'), 'store/is_present_n2': dict(kind='bounded'),
        'store/put_n2': dict(kind='bounded'), 'store/delete_n2': dict(kind='bounded'), 'store/update_n2': dict(kind='bounded'),
        'cw/add_n2': dict(kind='bounded'), 'cw/delete_n2': dict(kind='bounded'), 'cw/update_outside_region_n2': dict(kind='bounded'),
        'store/get_n3': dict(kind='bounded'), 'store/put_n3': dict(kind='bounded'), 'store/delete_n3': dict(kind='bounded'),
        'cw/add_n3': dict(kind='bounded'), 'cw/delete_n3': dict(kind='bounded'), 'cw/update_outside_region_n3': dict(kind='bounded'),
    },
    bounded_note='Hoare triples from an arbitrary pre-state with at most N resident entries (N=2 quick, N=3 thorough), arbitrary start values of all ten counters; '
                 'the exact quotient of hit_ratio is checked for hits, misses < 32 only (IEEE division equivalence is beyond CBMC on wider domains)',
    floor={'quick': 16, 'thorough': 22},
    assumptions=[CONC, 'AtomicU64::fetch_add wraps modulo 2^64 (hits + misses < 2^64 is assumed for the ratio)',
                 'keys_rejected and the put path of the worker are covered under C05/C06, not here'],
    explanation='Each named increment bumps exactly its own counter (10x10 frame, complete); hit_ratio is zero only without hits on the full u64 domain (complete); '
                'every Store / CacheWeight operation changes the counters by exactly the documented deltas (bounded N).',
)

PROPS['C14']['title'] = 'Frequency estimates never under-count, saturate safely and age by halving'
PROPS['C14']['kani'] = {'quick': ['fc/row_increment_at_all_bytes', 'fc/row_half_counters_all_bytes', 'fc/next_power_2_all_inputs', 'fc/matrix_contract_small',
                                  'dk/add_if_missing_then_has', 'lfu/access_step_small_sketch'], 'thorough': []}
PROPS['C14']['kani_meta'] = {'fc/matrix_contract_small': dict(kind='bounded', note='total_counters in {2,4,8}'),
                             'lfu/access_step_small_sketch': dict(kind='bounded', note='2-counter sketch')}
PROPS['C14']['floor'] = {'quick': 30, 'thorough': 30}
PROPS['C14']['bounded_note'] = 'Kani twins only: the contract assumed for FrequencyCounter::matrix is checked for total_counters in {2,4,8}; the TinyLFU step on a 2-counter sketch'
HARNESS_PREFIX['dk'] = 'cache::lfu::doorkeeper::verif_kani'
PROPS['C12']['title'] = 'Every acknowledgement resolves exactly once to the command\'s real outcome'

PROPS['C09'] = dict(
    level='proof',
    title='Expired values are never served',
    kani={'quick': ['clock/has_passed_is_strictly_after', 'sv/is_alive_matches_spec', 'sv/never_expiring_has_no_deadline',
                    'sv/expiring_sets_deadline_now_plus_ttl', 'sv/update_changes_exactly_what_was_requested',
                    'store/get_n2', 'store/get_ref_n2', 'store/put_with_ttl_n2', 'store/update_n2'],
          'thorough': ['store/get_n3', 'store/get_ref_n3', 'store/update_n3']},
    kani_meta={'store/get_n2': dict(kind='bounded'), 'store/get_ref_n2': dict(kind='bounded'), 'store/put_with_ttl_n2': dict(kind='bounded'),
               'store/update_n2': dict(kind='bounded'), 'store/get_n3': dict(kind='bounded'), 'store/get_ref_n3': dict(kind='bounded'), 'store/update_n3': dict(kind='bounded')},
    bounded_note='Store triples: arbitrary store with at most N entries (N=2 quick, 3 thorough); the StoredValue / Clock obligations are loop-free over all SystemTime >= epoch and all Durations',
    floor={'quick': 9, 'thorough': 12},
    assumptions=[CONC, 'the client Clock is an arbitrary total function returning a time at or after the Unix epoch',
                 'now + time_to_live is representable (otherwise: finding region F-C17-ttl-overflow, see C17)'],
    explanation='has_passed(t) <=> now > t; is_alive <=> not soft-deleted and (no expiry or not now > expiry); expiring/update set expiry = now + ttl; '
                'every read of Store filters on exactly that predicate, whether or not a sweep ran.',
)

PROPS['C10'] = dict(
    level='proof',
    title='The sweeper removes exactly the expired keys and reclaims their weight',
    kani={'quick': ['ttl/shard_index_s2', 'ttl/shard_index_s4', 'ttl/put_n2_s2', 'ttl/delete_n2_s2', 'ttl/delete_unknown_n2_s2', 'ttl/update_n2_s2',
                    'ttl/get_n2_s2', 'ttl/clear_n2_s2', 'ttl/sweep_n2_s2', 'idgen/ids_strictly_increase', 'cw/delete_n2'],
          'thorough': ['ttl/put_n3_s4', 'ttl/update_n3_s4', 'ttl/sweep_n3_s4']},
    kani_meta={h: dict(kind='bounded') for h in ['ttl/put_n2_s2', 'ttl/delete_n2_s2', 'ttl/delete_unknown_n2_s2', 'ttl/update_n2_s2', 'ttl/get_n2_s2',
                                                  'ttl/clear_n2_s2', 'ttl/sweep_n2_s2', 'cw/delete_n2', 'ttl/put_n3_s4', 'ttl/update_n3_s4', 'ttl/sweep_n3_s4']},
    bounded_note='TTLTicker triples: arbitrary ticker satisfying INV_ttl with at most N entries over S shards (N=2,S=2 quick; N=3,S=4 thorough); shard_index is complete over all times >= epoch',
    floor={'quick': 11, 'thorough': 14},
    harness_timeout='1500s', kani_timeout=3400,
    assumptions=[CONC, 'hashbrown::HashMap is a map and retain visits every entry once (stand-in)', 'clock >= Unix epoch',
                 'X1: one call of the extracted sweep step = one iteration of the sweeper loop'],
    not_covered=['"eventually removed" (liveness over the tick schedule visiting every shard residue) is NOT decided',
                 'the composition sweep -> CacheWeight::delete -> Store::delete is covered under C05'],
    explanation='INV_ttl (every entry sits in shard secs(expiry) mod shards) is preserved by put/update/delete; the sweep step removes exactly the entries of the '
                'current shard whose expiry has passed and calls the evict hook exactly once for each; deleting an unknown id in CacheWeight is the identity and ids are never reused.',
)

BND = lambda hs: {h: dict(kind='bounded') for h in hs}

PROPS['C06'] = dict(
    level='proof',
    title='Admission follows the TinyLFU rule: colder keys never evict hotter ones',
    verus=['policy'],
    kani={'quick': ['cw/sampled_key_order_matches_spec', 'cw/sampled_key_order_transitive', 'cw/space_available_full_domain',
                    'cw/add_n2', 'cw/delete_n2', 'cw/reads_n2'],
          'thorough': ['cw/add_n3', 'cw/delete_n3', 'cw/sampler_initial_n3', 'cw/sampler_pop_n2', 'cw/sampler_fill_in_n2', 'cw/sampler_no_duplicate_fill_n2', 'ap/maybe_add_n1']},
    kani_meta=BND(['cw/add_n2', 'cw/delete_n2', 'cw/reads_n2', 'cw/add_n3', 'cw/delete_n3', 'cw/sampler_initial_n3', 'cw/sampler_pop_n2',
                   'cw/sampler_fill_in_n2', 'cw/sampler_no_duplicate_fill_n2', 'ap/maybe_add_n1']),
    harness_timeout='1700s', kani_timeout=3500,
    bounded_note='the CALLEE contracts the Verus proof relies on are checked on the real CacheWeight / sampler code from arbitrary pre-states with at most N residents '
                 '(quick: add/delete/reads N=2; thorough: N=3, the sampler contract N<=3, and maybe_add end-to-end with one resident)',
    floor={'quick': 14, 'thorough': 21},
    assumptions=[CONC,
                 'T6: a ghost (erased) World parameter is threaded through maybe_add/create_space and their calls into CacheWeight and the sampler; it stands for the lock-protected state',
                 'T7: the closure |key_hash| self.estimate(key_hash) is annotated with ensures r == est_spec(key_hash)',
                 'AdmissionPolicy::estimate returns est_spec(hash): a pure function of the hash while nobody records accesses (TinyLFU::estimate is &self; unit sketch)',
                 'the contracts of CacheWeight::{add,delete,is_space_available_for,..} and of the sampler are ASSUMED in the Verus unit and checked (bounded N) by the named Kani harnesses',
                 'X3: std BinaryHeap / HashSet are bound to stand-ins in the Kani sampler harnesses (pop returns a maximum; a set)',
                 'termination of create_space is not proved (exec_allows_no_decreases_clause)'],
    explanation='Verus proves for all cache contents, weights, estimates and sample contents that maybe_add accepts without eviction when the put fits, rejects with no change when it is heavier '
                'than the cache, and otherwise evicts exactly the keys the sampler hands out (each the coldest of its sample, each with estimate <= the incoming estimate, one at a time while space is missing), '
                'rejects only when the sample ran dry or its coldest key is hotter, and accepts exactly when enough space results. SampledKey::cmp is checked for all (u8,i64) pairs.',
)

PROPS['C01'] = dict(
    level='proof',
    title='Total weight never exceeds the configured cache weight',
    verus=['policy', 'lemmas'],
    verus_only={'lemmas': [r'lemma_step_preserves_inv', r'lemma_history_preserves_inv', r'lemma_check_then_add_is_stable'],
                'policy': [r'maybe_add', r'create_space', r'update', r'delete_with_hook', r'weight_used']},
    kani={'quick': ['cw/space_available_full_domain', 'cw/add_n2', 'cw/delete_n2', 'cw/update_outside_region_n2', 'cw/update_region_cover_n2', 'cw/clear_n2', 'cw/reads_n2'],
          'thorough': ['cw/add_n3', 'cw/delete_n3', 'cw/update_outside_region_n3', 'ap/delete_update_n2']},
    kani_meta=dict(BND(['cw/add_n2', 'cw/delete_n2', 'cw/update_outside_region_n2', 'cw/clear_n2', 'cw/reads_n2', 'cw/add_n3', 'cw/delete_n3', 'cw/update_outside_region_n3', 'ap/delete_update_n2']),
                   **{'cw/update_region_cover_n2': dict(region_cover='F-C01-update')}),
    bounded_note='CacheWeight triples from an arbitrary INV_w pre-state with at most N residents (2 quick, 3 thorough), all i64 weights and cache weights',
    floor={'quick': 14, 'thorough': 18},
    assumptions=[CONC, 'the schedule quantifier of C01 is NOT explored; stability of the check-then-add window under interleaved deletes is lemma L2 over the contracts',
                 'T6/T7 as in C06'],
    not_covered=['intermediate instants inside one locked section', 'UpdateWeight growth beyond the free space: known finding F-C01-update'],
    explanation='INV_w (0 <= used <= max, used = sum of weights) is preserved by every CacheWeight operation under its contract precondition; maybe_add calls add only when the space suffices '
                '(Verus, unbounded: the precondition of add is an obligation at both call sites); histories of any length by lemma L1.',
)

PROPS['C03'] = dict(
    level='proof',
    title='No spurious loss: without memory pressure an accepted key stays readable',
    verus=['lemmas', 'policy'],
    verus_only={'lemmas': [r'lemma_no_spurious_loss'], 'policy': [r'maybe_add', r'create_space']},
    kani={'quick': ['cw/delete_n2', 'store/put_n2', 'store/update_n2', 'store/delete_n2', 'store/mark_deleted_n2', 'store/get_n2', 'ttl/sweep_n2_s2'],
          'thorough': ['store/put_n3', 'store/update_n3', 'store/delete_n3', 'ttl/sweep_n3_s4']},
    kani_meta=BND(['cw/delete_n2', 'store/put_n2', 'store/update_n2', 'store/delete_n2', 'store/mark_deleted_n2', 'store/get_n2', 'ttl/sweep_n2_s2',
                   'store/put_n3', 'store/update_n3', 'store/delete_n3', 'ttl/sweep_n3_s4']),
    harness_timeout='1500s', kani_timeout=3400,
    bounded_note='frame clauses ("every other entry unchanged") of the Store / CacheWeight / sweep triples, at most N entries',
    floor={'quick': 10, 'thorough': 14},
    assumptions=[CONC, 'TinyLFU / pool operations do not reference Store or CacheWeight (syntactic fact: the functions of lfu/ and pool.rs mention neither type)',
                 'operations on k itself are issued one after another (premise of the property)'],
    explanation='C03 is lemma L3 over FRAME contracts: an admission that fits evicts nothing (Verus, unbounded), the sweep removes only entries whose expiry has passed, '
                'CacheWeight::delete of an unknown id is the identity, every Store writer touches only its own key.',
)

API_ASSUME = ['T6: a ghost (erased) World parameter is threaded through the API methods and their calls into Store / CommandExecutor / AdmissionPolicy / TTLTicker / id generator / pool',
              'T4: CacheD and Config are re-declared with stand-in field types; T10: (self.config.f)(args) is written self.config.f.verif_call(args); the client weight / hash functions are arbitrary total functions',
              'collaborator contracts are ASSUMED in the Verus unit and checked on the real code by the Kani harnesses named beside them (bounded N where they touch a map)',
              'CommandExecutor::send queues exactly the given command or returns an error (decided by verus:worker::CommandExecutor::send against the ASSUMED crossbeam channel contract)',
              'the clock reading is fixed during one API call']
STORE_Q = ['store/get_n2', 'store/get_ref_n2', 'store/is_present_n2', 'store/put_n2', 'store/put_with_ttl_n2', 'store/delete_n2', 'store/mark_deleted_n2', 'store/update_n2']
STORE_T = ['store/get_n3', 'store/get_ref_n3', 'store/put_n3', 'store/delete_n3', 'store/mark_deleted_n3', 'store/update_n3']

PROPS['C02'] = dict(
    level='proof', title='Reads return only the current value of the key, never stale or foreign',
    verus=['api'], verus_only={'api': [r'CacheD::get$', r'CacheD::get_ref$', r'CacheD::map_get$', r'CacheD::map_get_ref$', r'MultiGetIterator::next', r'CacheD::mark_key_accessed', r'CacheD::is_shutting_down']},
    kani={'quick': STORE_Q + ['sv/is_alive_matches_spec'], 'thorough': STORE_T},
    kani_meta=BND(STORE_Q + STORE_T),
    bounded_note='Store triples from an arbitrary store with at most N entries (2 quick, 3 thorough): each reader returns exactly the entry of ITS key when alive; each writer changes only its own key (whole-view frame)',
    floor={'quick': 16, 'thorough': 22},
    assumptions=[CONC] + API_ASSUME + ['DashMap is a linearizable map and the value is cloned under the shard guard (stand-in)'],
    not_covered=['multi_get (an iterator-adapter chain over get) and MultiGetMapIterator::next (Option::map with a closure) are outside the Verus subset and not checked',
                 'overlap of a read with a concurrent write'],
    explanation='Verus: every read entry point returns None when shutting down and otherwise exactly the Store answer for that key (map variants: map_fn applied to it). '
                'Kani: Store::get/get_ref return Some(v) iff the entry of that key exists, is alive and v is its value; no writer touches another key.',
)
PROPS['C07'] = dict(
    level='proof', title="put never overwrites; 'key already exists' only for keys that can be read",
    verus=['api'], verus_only={'api': [r'CacheD::put$', r'CacheD::put_with_weight$', r'CacheD::put_with_ttl$', r'CacheD::put_with_weight_and_ttl$', r'CacheD::key_description', r'CacheD::is_shutting_down']},
    kani={'quick': ['store/is_present_n2', 'store/expired_put_region_cover_n2', 'store/get_n2', 'store/delete_n2', 'ack/constructors_satisfy_j', 'idgen/ids_strictly_increase'], 'thorough': []},
    kani_meta=dict(BND(['store/is_present_n2', 'store/get_n2', 'store/delete_n2']), **{'store/expired_put_region_cover_n2': dict(region_cover='F-C07-expired-put')}),
    bounded_note='Store::is_present / get / delete triples with at most 2 entries',
    floor={'quick': 11, 'thorough': 11},
    assumptions=[CONC] + API_ASSUME,
    not_covered=['an expired-but-unswept key is refused as existing: known finding F-C07-expired-put'],
    explanation='Verus (all four variants): existing key => answered Rejected(KeyAlreadyExists) on the spot, nothing queued, nothing changed; otherwise exactly one Put/PutWithTTL with the given key, value, weight, ttl and a fresh id. '
                'Kani: is_present is physical presence; present, not soft-deleted and not expired => readable.',
)
PROPS['C08'] = dict(
    level='proof', title='put_or_update changes exactly what was requested, or acts as put',
    verus=['api'], verus_only={'api': [r'CacheD::put_or_update', r'CacheD::key_description', r'CacheD::is_shutting_down']},
    verus_probes={'F-C17-ttl-remove-weight': dict(unit='api', drop_line='!ttl_remove_region(old(verif_w), request),', fn=r'put_or_update')},
    kani={'quick': ['sv/update_changes_exactly_what_was_requested', 'store/type_of_expiry_update_table', 'pou/updated_weight_table', 'pou/builder_copies_fields',
                    'wc/default_weight_is_positive_and_ttl_adds_the_ticker_entry', 'store/update_n2', 'store/dead_upsert_region_cover_n2'], 'thorough': ['store/update_n3']},
    kani_meta=dict(BND(['store/update_n2', 'store/update_n3']), **{'store/dead_upsert_region_cover_n2': dict(region_cover='F-C08-dead-upsert')}),
    bounded_note='Store::update triple with at most N entries',
    floor={'quick': 10, 'thorough': 11},
    assumptions=[CONC] + API_ASSUME + ['T7: the two closures of put_or_update are annotated with their result (existing_weight +/- 24)', 'charged weights are at most i64::MAX - 24'],
    not_covered=['an upsert applied to an expired-unswept or soft-deleted entry: known finding F-C08-dead-upsert', 'removing the ttl of a key charged <= 24: known finding F-C17-ttl-remove-weight'],
    explanation='Verus: for a held key exactly the requested fields of its entry change before the call returns, the expiry index follows the four-way classification, and the weight sent is the explicit one, '
                'else the recomputed one, else existing +/- the ticker entry; for a key that is not held exactly the corresponding put is queued. Kani (complete): StoredValue::update, the classification table, updated_weight, the builder.',
)
PROPS['C13'] = dict(
    level='proof', title='Shutdown refuses new work, answers every pending command, never blocks',
    verus=['api'], verus_only={'api': [r'CacheD::']},
    kani={'quick': [], 'thorough': []},
    floor={'quick': 15, 'thorough': 15},
    assumptions=[CONC] + API_ASSUME,
    not_covered=['"every pending acknowledgement completes" and "shutdown() never blocks" are queue / schedule properties and are NOT decided here',
                 'multi_get (iterator chain) is not checked'],
    explanation='FIRST SENTENCE ONLY. Verus: every entry point (4 puts, put_or_update, delete, get, get_ref, map_get, map_get_ref, the multi-get iterator) returns Err(shutdown) / None once the flag is set and touches nothing; '
                'shutdown() sets the flag, and a repeated call is a no-op.',
)
PROPS['C04'] = dict(
    level='proof', title='Delete hides the key immediately and releases it completely',
    verus=['api'], verus_only={'api': [r'CacheD::delete$', r'CacheD::is_shutting_down']},
    kani={'quick': ['store/mark_deleted_n2', 'store/delete_n2', 'cw/delete_n2', 'ttl/delete_n2_s2', 'ttl/delete_unknown_n2_s2'], 'thorough': ['store/mark_deleted_n3', 'store/delete_n3', 'cw/delete_n3']},
    kani_meta=BND(['store/mark_deleted_n2', 'store/delete_n2', 'cw/delete_n2', 'ttl/delete_n2_s2', 'ttl/delete_unknown_n2_s2', 'store/mark_deleted_n3', 'store/delete_n3', 'cw/delete_n3']),
    harness_timeout='1500s', kani_timeout=3400,
    bounded_note='mark_deleted / Store::delete / CacheWeight::delete / TTLTicker::delete triples with at most N entries',
    floor={'quick': 7, 'thorough': 10},
    assumptions=[CONC] + API_ASSUME,
    not_covered=['a read racing mark_deleted'],
    explanation='Verus: CacheD::delete marks the entry before it returns (no read returns it afterwards, every other entry untouched) and queues exactly one Delete. '
                'Kani: the three deletions the worker performs remove exactly that key / id / expiry entry and are the identity for unknown ones.',
)

WORKER_ASSUME = ['T6 ghost World as in C06; the worker-level contract of maybe_add composes verus:policy::maybe_add with the delete hook `|key| store.delete(&key)` built in CommandExecutor::spin '
                 '(that composition is ASSUMED: a closure cannot carry the ghost token)',
                 'ids are never reused (kani:idgen/ids_strictly_increase); only the single worker thread executes put / put_with_ttl / delete / UpdateWeight',
                 'INV_w (used = sum of charged weights) is carried by the Kani CacheWeight triples, not by the Verus World']
PROPS['C05'] = dict(
    level='proof', title='Weight accounting matches the set of held keys at quiescence',
    verus=['worker', 'policy'], verus_only={'policy': [r'maybe_add', r'create_space', r'delete_with_hook', r'update']},
    kani={'quick': ['cw/add_n2', 'cw/delete_n2', 'cw/update_outside_region_n2', 'store/put_n2', 'store/put_with_ttl_n2', 'store/delete_n2', 'store/is_present_n2',
                    'ttl/put_n2_s2', 'ttl/delete_n2_s2', 'ttl/sweep_n2_s2', 'idgen/ids_strictly_increase'],
          'thorough': ['cw/add_n3', 'cw/delete_n3', 'store/put_n3', 'store/delete_n3', 'ttl/put_n3_s4', 'ttl/sweep_n3_s4']},
    kani_meta=BND(['cw/add_n2', 'cw/delete_n2', 'cw/update_outside_region_n2', 'store/put_n2', 'store/put_with_ttl_n2', 'store/delete_n2', 'store/is_present_n2',
                   'ttl/put_n2_s2', 'ttl/delete_n2_s2', 'ttl/sweep_n2_s2', 'cw/add_n3', 'cw/delete_n3', 'store/put_n3', 'store/delete_n3', 'ttl/put_n3_s4', 'ttl/sweep_n3_s4']),
    harness_timeout='1500s', kani_timeout=3400,
    bounded_note='the leaf contracts (CacheWeight / Store / TTLTicker operations) the Verus proof relies on, from arbitrary pre-states with at most N entries',
    floor={'quick': 18, 'thorough': 24},
    assumptions=[CONC] + WORKER_ASSUME,
    not_covered=['put racing upsert / eviction racing upsert from another thread (put_or_update updates the Store and the ticker outside the worker): not explored',
                 'the sweep composition hook -> CacheWeight::delete(id, store-hook) relies on the same bijection; its steps are checked separately (kani:ttl/sweep, kani:cw/delete)'],
    explanation='INV_acct (the charged ids are exactly the ids of the Store entries, key <-> id bijective; every expiring entry is registered in the ticker) is preserved by the worker\'s put, put_with_ttl and delete '
                'for ALL states (Verus). A put whose key is already held (two puts queued back to back) is refused without overwriting or charging a second id - this was a genuine defect, fixed.',
)
PROPS['C04']['verus'] = ['api', 'worker']
PROPS['C04']['verus_only'] = {'api': [r'CacheD::delete$', r'CacheD::is_shutting_down'], 'worker': [r'CommandExecutor::delete']}
PROPS['C04']['floor'] = {'quick': 8, 'thorough': 11}
PROPS['C04']['assumptions'] = PROPS['C04']['assumptions'] + WORKER_ASSUME
PROPS['C04']['explanation'] += ' Verus (worker): CommandExecutor::delete of a held key returns Accepted with its Store entry, its charged id and its expiry entry gone; of a key that is not held returns Rejected(KeyDoesNotExist) and changes nothing.'
PROPS['C16']['verus'] = ['worker', 'lemmas']
PROPS['C16']['verus_only'] = {'worker': [r'CommandExecutor::put'], 'lemmas': [r'lemma_stats_step']}
PROPS['C16']['floor'] = {'quick': 19, 'thorough': 25}
PROPS['C16']['explanation'] += ' keys_rejected is bumped exactly when admission refuses a put (Verus, worker).'
PROPS['C12']['verus'] = ['worker', 'lemmas']
PROPS['C12']['verus_only'] = {'worker': [r'CommandExecutor::put'], 'lemmas': [r'lemma_poll_after_flag']}
PROPS['C12']['floor'] = {'quick': 9, 'thorough': 9}
PROPS['C12']['not_covered'] = ['the worker loop itself (status = execute(command); acknowledgement.done(status)) is read, not verified: "the effect is visible when Accepted is observed" rests on put_outcome (Verus) plus that order']

PROPS['C17'] = dict(
    level='proof', title='Valid calls never panic or kill a background worker',
    verus=['sketch', 'policy', 'api', 'worker'],
    verus_probes={'F-C17-ttl-remove-weight': dict(unit='api', drop_line='!ttl_remove_region(old(verif_w), request),', fn=r'put_or_update')},
    kani={'quick': ['sv/expiring_sets_deadline_now_plus_ttl', 'sv/ttl_overflow_region_cover', 'sv/update_changes_exactly_what_was_requested', 'ttl/shard_index_s2', 'ttl/shard_index_s4',
                    'wc/default_weight_is_positive_and_ttl_adds_the_ticker_entry', 'pou/builder_copies_fields', 'pou/updated_weight_table',
                    'fc/smallest_counters_are_usable', 'fc/next_power_2_all_inputs', 'fc/row_increment_at_all_bytes', 'fc/row_half_counters_all_bytes',
                    'cw/update_weight_stats_full_domain', 'cw/space_available_full_domain', 'cw/add_n2', 'cw/delete_n2', 'cw/update_outside_region_n2', 'cw/update_region_cover_n2',
                    'stats/each_increment_touches_only_its_counter', 'idgen/ids_strictly_increase', 'ack/done_through_acknowledgement', 'ack/poll_from_any_j_state'],
          'thorough': ['cw/add_n3', 'cw/delete_n3', 'cw/update_outside_region_n3', 'store/put_with_ttl_n2', 'store/update_n2', 'ttl/put_n2_s2', 'ttl/sweep_n2_s2']},
    kani_meta=dict(BND(['fc/smallest_counters_are_usable', 'cw/add_n2', 'cw/delete_n2', 'cw/update_outside_region_n2', 'cw/add_n3', 'cw/delete_n3', 'cw/update_outside_region_n3',
                        'store/put_with_ttl_n2', 'store/update_n2', 'ttl/put_n2_s2', 'ttl/sweep_n2_s2']),
                   **{'sv/ttl_overflow_region_cover': dict(region_cover='F-C17-ttl-overflow'), 'cw/update_region_cover_n2': dict(region_cover='F-C01-update')}),
    harness_timeout='1500s', kani_timeout=3400,
    bounded_note='triples with at most N entries; FrequencyCounter::new for counters <= 3 (Verus covers every size)',
    floor={'quick': 80, 'thorough': 86},
    assumptions=[CONC, 'documented preconditions only: weight > 0, a request the builder accepts, a key that is not held comes with a value, counters/capacity/cache weight/pool/buffer/queue > 0, '
                       'shards a power of two > 1, the weight function returns positive weights, the clock is not before the Unix epoch (taken from expect("Time went backwards"))',
                 'panic-freedom = the built-in obligations of both verifiers on every function under contract: arithmetic overflow, index bounds, unwrap/expect on None/Err, '
                 'division by zero, and every assert! (rule T3 turns a reachable assert! into a failed obligation); Kani additionally turns a same-thread lock re-acquisition into a panic',
                 'memory exhaustion (e.g. counters = 2^62) is out of scope'],
    not_covered=['"keeps serving afterwards" only in the sense that no function under contract that runs on a background thread can panic outside the listed regions',
                 'ConfigBuilder / CacheD::new / Pool / the three thread loops themselves are not under contract (Kani crashes on the boxed-closure config; thread spawning is unsupported)',
                 'known findings: F-C17-ttl-overflow (Duration::MAX), F-C17-ttl-remove-weight, F-C01-update (UpdateWeight overflow / breach)'],
    explanation='C17 is assembled from the panic-freedom obligations of every function under contract in the other units (Verus: sketch, policy, api, worker - for all inputs; Kani: the leaf harnesses, '
                'bit-precise) plus boundary harnesses for TTL arithmetic, shard selection, default weights, the request builder and the smallest sketch sizes.',
)

PROPS['C06']['verus'] = ['policy', 'sampler']
PROPS['C06']['kani']['thorough'] = ['cw/add_n3', 'cw/delete_n3', 'cw/sampler_pop_n2', 'cw/sampler_fill_in_n2', 'cw/sampler_no_duplicate_fill_n2', 'ap/maybe_add_n1']
PROPS['C06']['floor'] = {'quick': 22, 'thorough': 28}
PROPS['C06']['assumptions'] = [a for a in PROPS['C06']['assumptions'] if not a.startswith('X3')] + [
    'unit sampler: std BinaryHeap is a max-heap under SampledKey::cmp (pop returns an element no other exceeds), HashSet is a set, DashMap::iter yields every resident exactly once; '
    'T8: field access through Deref of the map guard (pair.weight) is written pair.value().weight; T9: the for loop over the map iterator is written as the loop it desugars to',
    'X3 (Kani twins only): std BinaryHeap / HashSet bound to stand-ins']
PROPS['C06']['explanation'] += ' Unit sampler proves the sampler contract itself without a bound (initial sample, pop, refill).'

# C08 relies on the TTLTicker contracts for the expiry index calls it makes
PROPS['C08']['kani']['quick'] += ['ttl/put_n2_s2', 'ttl/delete_n2_s2', 'ttl/update_n2_s2']
PROPS['C08']['kani_meta'].update(BND(['ttl/put_n2_s2', 'ttl/delete_n2_s2', 'ttl/update_n2_s2']))
PROPS['C08']['floor'] = {'quick': 13, 'thorough': 14}
PROPS['C08']['harness_timeout'] = '1500s'
PROPS['C08']['kani_timeout'] = 3400

PROPS['C07']['verus'] = ['api', 'worker']
PROPS['C07']['verus_only']['worker'] = [r'CommandExecutor::put$', r'CommandExecutor::put_with_ttl$']
PROPS['C07']['floor'] = {'quick': 13, 'thorough': 13}
PROPS['C07']['assumptions'] = PROPS['C07']['assumptions'] + WORKER_ASSUME
PROPS['C07']['explanation'] += ' Verus (worker): a Put / PutWithTTL whose key is already held when the worker executes it (two puts queued back to back) is refused with KeyAlreadyExists and changes nothing.'

# multi_get and MultiGetMapIterator::next are now under contract (rule T11, Option::map)
PROPS['C02']['verus_only']['api'] += [r'CacheD::multi_get$', r'MultiGetMapIterator::next']
PROPS['C02']['not_covered'] = ['overlap of a read with a concurrent write']
PROPS['C02']['floor'] = {'quick': 18, 'thorough': 24}
PROPS['C13']['not_covered'] = ['"every pending acknowledgement completes" and "shutdown() never blocks" are queue / schedule properties and are NOT decided here']
PROPS['C13']['floor'] = {'quick': 17, 'thorough': 17}
# C03 needs INV_ttl (the ticker holds a key only under its CURRENT expiry) for "a sweep removes only passed expiries"
PROPS['C03']['kani']['quick'] += ['ttl/put_n2_s2', 'ttl/update_n2_s2', 'ttl/delete_n2_s2']
PROPS['C03']['kani_meta'].update(BND(['ttl/put_n2_s2', 'ttl/update_n2_s2', 'ttl/delete_n2_s2']))
PROPS['C03']['floor'] = {'quick': 13, 'thorough': 17}

# the sweeper's and the worker's delete hooks are verified as functions (closure bodies extracted); C10 also depends on
# put_or_update registering added / removed / changed expiries correctly
PROPS['C10']['verus'] = ['worker', 'api']
PROPS['C10']['verus_only'] = {'worker': [r'verif_sweeper_store_hook', r'verif_sweeper_evict_hook', r'CommandExecutor::delete$', r'CommandExecutor::put_with_ttl$'],
                              'api': [r'CacheD::put_or_update']}
PROPS['C10']['floor'] = {'quick': 16, 'thorough': 19}
PROPS['C10']['assumptions'] = PROPS['C10']['assumptions'] + WORKER_ASSUME + API_ASSUME
PROPS['C10']['explanation'] += ' Verus: the sweeper hook chain (closure bodies of CacheD::ttl_ticker, extracted) removes the weight entry and the Store entry of exactly the expired id and is the identity for an id that is no longer charged; put_or_update registers every expiry change in the ticker.'
PROPS['C10']['not_covered'] = ['"eventually removed" (liveness over the tick schedule visiting every shard residue) is NOT decided']
PROPS['C05']['explanation'] += ' The worker\'s delete hook and the sweeper\'s hook chain are verified as functions (closure bodies extracted from spin / ttl_ticker).'
PROPS['C05']['not_covered'] = ['put racing upsert / eviction racing upsert from another thread (put_or_update updates the Store and the ticker outside the worker): not explored']

PROPS['C13']['verus_only'] = {'api': [r'CacheD::', r'MultiGetIterator::next', r'MultiGetMapIterator::next']}
PROPS['C13']['floor'] = {'quick': 18, 'thorough': 18}

PROPS['C15'] = dict(
    level='proof', title='Every hit is accounted exactly once; reads never wait for the counting pipeline',
    verus=['pool', 'api', 'sketch'],
    verus_only={'pool': [r'Buffer::add', r'lemma_flat_push'], 'api': [r'CacheD::get$', r'CacheD::get_ref$', r'CacheD::mark_key_accessed', r'CacheD::map_get', r'CacheD::multi_get$', r'MultiGet'],
                'sketch': [r'TinyLFU::increment_access$', r'TinyLFU::increment_access_for']},
    kani={'quick': ['stats/each_increment_touches_only_its_counter'], 'thorough': []},
    floor={'quick': 12, 'thorough': 12},
    assumptions=[CONC, 'T6 ghost World (batches handed to the consumer)',
                 'AdmissionPolicy::accept (a crossbeam select!) takes every batch it is handed and counts it either as added or as dropped: ASSUMED, outside both verifiers',
                 'Pool::add picks a buffer and calls Buffer::add under its write lock (read, not verified: thread-local RNG + lock guard)'],
    not_covered=['"for any number of reading threads" and "a read never blocks" are schedule properties: NOT decided',
                 'the hand-over accept -> channel -> consumer thread and the added/dropped counters of accept are not under contract'],
    explanation='SEQUENTIAL ACCOUNTING CORE ONLY. Verus: every hit of every read variant hands exactly one access record (the hash of that key) to the pool and a miss none; Buffer::add keeps every record either buffered or in exactly '
                'one batch handed to the consumer, in order, and never exceeds its capacity; the consumer side records every hash of a batch exactly once (TinyLFU::increment_access advances the window by the batch length).',
)

# one iteration of the worker loop is under contract (rule X1/loopbodyfn: the body of `while let Ok(pair) = receiver.recv()` in
# CommandExecutor::spin, extracted as a function): C12 "resolves exactly once, to the command's outcome, after the effect";
# C13 "Shutdown answers every command still queued"
STEP_ASSUME = ['crossbeam channel (ASSUMED contract): FIFO; `receiver.iter()` yields each queued command once, in order; the ghost `queue` holds the acknowledgement ids of '
               'the commands waiting in the channel and `acks` the acknowledgements completed so far; all acknowledgements are distinct objects (CommandAcknowledgement::new per send)',
               'CommandAcknowledgement::done (ASSUMED here, kani:ack/*): stores the status, then sets the flag and wakes the waker']
PROPS['C12']['verus_only'] = {'worker': [r'CommandExecutor::put$', r'CommandExecutor::put_with_ttl$', r'CommandExecutor::delete$', r'verif_worker_step'], 'lemmas': [r'lemma_poll_after_flag']}
PROPS['C12']['floor'] = {'quick': 11, 'thorough': 11}
PROPS['C12']['assumptions'] = PROPS['C12']['assumptions'] + STEP_ASSUME
PROPS['C12']['not_covered'] = ['a waker registered concurrently with done() on another thread: decided only at the interference points of kani:ack (X2), not for every schedule']
PROPS['C12']['explanation'] += (' Verus (worker step): for every command the worker first executes it and then completes its acknowledgement exactly once (done() requires "not completed yet") '
                                'with the status the command ended with, never Pending; for Put / PutWithTTL / Delete the Store already shows the effect when Accepted is stored; nobody else\'s acknowledgement is touched.')
PROPS['C13']['verus'] = ['api', 'worker']
PROPS['C13']['verus_only'] = {'api': [r'CacheD::', r'MultiGetIterator::next', r'MultiGetMapIterator::next'], 'worker': [r'verif_worker_step']}
PROPS['C13']['floor'] = {'quick': 19, 'thorough': 19}
PROPS['C13']['assumptions'] = PROPS['C13']['assumptions'] + STEP_ASSUME
PROPS['C13']['not_covered'] = ['"shutdown() never blocks" and "the worker thread eventually reaches the Shutdown command" are schedule / liveness properties and are NOT decided here']
PROPS['C13']['explanation'] = PROPS['C13']['explanation'].replace('FIRST SENTENCE ONLY. ', '') + (' Verus (worker step, Shutdown case): the Shutdown command is answered Accepted, every command still queued behind it is answered '
                                'ShuttingDown (loop invariant over the drained prefix), the queue ends empty, and the Store / weights are untouched.')

# C01 and the UpdateWeight route: the only unguarded growth is the recorded finding F-C01-update (an explicitly larger weight / a
# heavier value / an added time-to-live sent through UpdateWeight). Which weight put_or_update sends is pinned by its contract
# (explicit, else recomputed, else existing + 24 when a ttl is added and existing - 24 when it is removed), so a change that makes
# another route grow the total (e.g. a ttl removal) is a different violation and is reported under C01 as well.
PROPS['C01']['verus'] = ['policy', 'lemmas', 'api']
PROPS['C01']['verus_only']['api'] = [r'CacheD::put_or_update$']
PROPS['C01']['floor'] = {'quick': 15, 'thorough': 19}
PROPS['C01']['assumptions'] = PROPS['C01']['assumptions'] + API_ASSUME
PROPS['C01']['explanation'] += (' The weight an upsert asks the worker to charge is pinned by verus:api::CacheD::put_or_update (removing a time-to-live only ever lowers the charged weight).')


# C11: the sequential core only (hand-over API -> queue -> worker), under an ASSUMED contract of the crossbeam channel
PROPS['C11'] = dict(
    level='proof', title='Writes are applied exactly once, one at a time, in submission order',
    verus=['worker', 'api'],
    verus_only={'worker': [r'CommandExecutor::send$', r'verif_worker_step', r'lemma_put_then_delete_leaves_the_key_absent', r'CommandExecutor::put$', r'CommandExecutor::put_with_ttl$', r'CommandExecutor::delete$'],
                'api': [r'CacheD::put$', r'CacheD::put_with_weight$', r'CacheD::put_with_ttl$', r'CacheD::put_with_weight_and_ttl$', r'CacheD::put_or_update$', r'CacheD::delete$']},
    kani={'quick': [], 'thorough': []},
    floor={'quick': 12, 'thorough': 12},
    anchors=[dict(file='src/cache/command/command_executor.rs', regex=r'thread::spawn\s*\(', count=1, what='exactly one worker thread is spawned (CommandExecutor::spin)'),
             dict(file='src/cache/command/command_executor.rs', regex=r'\.spin\s*\(', count=1, what='spin is called once, from CommandExecutor::new'),
             dict(file='src/cache/command/command_executor.rs', regex=r'crossbeam_channel::bounded\s*\(', count=1, what='one bounded channel connects the API to the worker'),
             dict(file='src/cache/command/command_executor.rs', regex=r'\.recv\s*\(\s*\)', count=1, what='the worker takes one command at a time (a single blocking recv in the loop head)')],
    assumptions=[CONC] + API_ASSUME + WORKER_ASSUME + STEP_ASSUME + [
        'crossbeam_channel::bounded (ASSUMED contract, an external dependency): a blocking `send` appends its message at the back exactly once (waiting while the queue is full, dropping nothing), '
        'fails only when the receiver is gone; `recv` takes from the front; messages of one sender thread keep their order, and a send that returned before another began is ahead of it',
        'the worker loop is `while let Ok(pair) = receiver.recv() { BODY }` inside the single spawned thread: one recv per iteration (checked syntactically by the extractor and the anchors), BODY is the verified step'],
    not_covered=['all interleavings of several sender threads with the worker, and the behaviour of a full queue, are the semantics of crossbeam_channel (assumed), NOT explored here',
                 'the ordering claim across threads rests on the assumed channel contract; nothing here models two threads'],
    explanation='SEQUENTIAL CORE ONLY, under an assumed channel contract. Verus: every queued API write sends exactly one command describing exactly that write (api unit: the sent sequence grows by one); CommandExecutor::send queues '
                'exactly that command once, at the back, paired with the very acknowledgement object returned to the caller, and queues nothing on failure; one iteration of the worker loop applies exactly the command it dequeued, '
                'once, and completes exactly that acknowledgement (nobody else\'s) after the effect; a Put directly followed by a Delete of the same key leaves the key absent and uncharged whatever admission decided (lemma over two steps).',
)

# C16: the admission policy bumps no statistic itself (a refused put is counted once, by the worker; the weight statistics inside CacheWeight)
PROPS['C16']['verus'] = ['worker', 'lemmas', 'policy']
PROPS['C16']['verus_only']['policy'] = [r'AdmissionPolicy::maybe_add', r'AdmissionPolicy::create_space', r'AdmissionPolicy::update', r'AdmissionPolicy::delete_with_hook']
PROPS['C16']['floor'] = {'quick': 23, 'thorough': 29}
PROPS['C16']['explanation'] += ' The policy functions themselves leave every counter alone (Verus, policy: the sequence of direct statistic calls is unchanged by maybe_add / create_space / update / delete_with_hook).'

# C15: the hand-over (accept: rule T13 for the crossbeam select!) and one iteration of the consumer thread are under contract too
PROPS['C15']['verus'] = ['pool', 'api', 'sketch', 'policy']
PROPS['C15']['verus_only']['pool'] = [r'Buffer::add', r'lemma_flat_push', r'verif_consumer_step']
PROPS['C15']['verus_only']['policy'] = [r'AdmissionPolicy::accept']
PROPS['C15']['floor'] = {'quick': 15, 'thorough': 15}
PROPS['C15']['assumptions'] = [CONC, 'T6 ghost World (batches handed to the consumer, events queued for the consumer thread, direct statistic calls)',
    'T13: crossbeam `select! { send(s, e) -> r => A, default => B }` is the non-blocking send: A runs with the result when the operation was ready (Ok: queued at the back; Err: receiver gone, nothing queued), '
    'B when it was not (queue full, nothing queued) - ASSUMED contract of crossbeam_channel',
    'the consumer thread is `while let Ok(event) = receiver.recv() { BODY }` (one event per iteration, in queue order); `Arc<RwLock<TinyLFU>>::write()` gives exclusive access to the sketch',
    'Pool::add picks a buffer and calls Buffer::add under its write lock (read, not verified: thread-local RNG + lock guard)']
PROPS['C15']['not_covered'] = ['"for any number of reading threads" and "a read never blocks" as schedule properties: NOT decided (what is decided: the only channel operation on the read path is the non-blocking select, syntactically)']
PROPS['C15']['explanation'] = ('SEQUENTIAL ACCOUNTING CHAIN. Verus: every hit of every read variant hands exactly one access record (the hash of that key) to the pool and a miss none (api); Buffer::add keeps every record either buffered or in exactly '
    'one batch handed to the consumer, in order, and never exceeds its capacity (pool); AdmissionPolicy::accept either queues the batch for the consumer thread and counts its size as added, or does not queue it and counts its size as dropped - '
    'exactly one of the two, once, and an empty batch / Shutdown is not counted (policy, rule T13); one iteration of the consumer thread records the batch it took exactly once and the Shutdown event records nothing (pool); '
    'TinyLFU::increment_access advances the window by the batch length and records each hash once (sketch).')

# C17: the configuration builder's setters under their documented preconditions (unit `config`, rules T3 + T14)
PROPS['C17']['verus'] = PROPS['C17']['verus'] + ['config']
PROPS['C17']['assumptions'] = PROPS['C17']['assumptions'] + ['T14: `fn f(mut self, ..)` is verified as `fn f(self, ..) { let mut verif_self = self; .. }`; the boxed client closures and the clock are opaque values in unit `config`; usize::is_power_of_two is an uninterpreted predicate']

# with ONE resident two of the six reachability covers of t_maybe_add cannot be hit (no second victim; evicting the only resident always frees enough for a key that fits the cache)
PROPS['C06']['kani_meta']['ap/maybe_add_n1'] = dict(PROPS['C06']['kani_meta'].get('ap/maybe_add_n1', {}), min_covers=4)

# unit `store`: the straight-line Store functions for maps of any size, against an assumed DashMap contract (in addition to the Kani triples with N entries)
STORE_ASSUME = ['dashmap::DashMap (ASSUMED contract of the dependency, unit `store`): insert / remove / get / clear act on the key -> value map as on a mathematical map; T6 ghost World']
for _p, _only in (('C03', [r'Store::put$', r'Store::put_with_ttl$', r'Store::delete$']), ('C04', [r'Store::delete$']),
                  ('C05', [r'Store::put$', r'Store::put_with_ttl$', r'Store::delete$', r'Store::is_present$']),
                  ('C07', [r'Store::is_present$', r'Store::put$', r'Store::put_with_ttl$']),
                  ('C16', [r'Store::put$', r'Store::put_with_ttl$', r'Store::delete$']),
                  ('C17', None)):
    PROPS[_p]['verus'] = PROPS[_p]['verus'] + ['store']
    if _only is not None:
        PROPS[_p].setdefault('verus_only', {})['store'] = _only
    PROPS[_p]['assumptions'] = PROPS[_p]['assumptions'] + STORE_ASSUME
# C17 collects the panic-freedom obligations of every unit
PROPS['C17']['verus'] = PROPS['C17']['verus'] + [u for u in ('sampler', 'pool') if u not in PROPS['C17']['verus']]

# unit `ticker`: TTLTicker::{put, update, delete, get} for any number of shards and entries, against an assumed hashbrown::HashMap / RwLock contract
TICKER_ASSUME = ['hashbrown::HashMap behind parking_lot::RwLock (ASSUMED contract of the dependencies, unit `ticker`): insert / remove / get act on the shard\'s map as on a mathematical map; '
                 'each write() / read() section is one atomic step; T4: `Arc<[RwLock<HashMap>]>` is declared `Vec<ShardLock>`; shard_index is decided by kani:ttl/shard_index_* (complete)']
for _p, _only in (('C03', [r'TTLTicker::put$', r'TTLTicker::update$', r'TTLTicker::delete$']), ('C04', [r'TTLTicker::delete$']),
                  ('C08', [r'TTLTicker::put$', r'TTLTicker::update$', r'TTLTicker::delete$']),
                  ('C10', [r'TTLTicker::put$', r'TTLTicker::update$', r'TTLTicker::delete$', r'TTLTicker::get$']),
                  ('C17', None)):
    PROPS[_p]['verus'] = PROPS[_p]['verus'] + ['ticker']
    if _only is not None:
        PROPS[_p].setdefault('verus_only', {})['ticker'] = _only
    PROPS[_p]['assumptions'] = PROPS[_p]['assumptions'] + TICKER_ASSUME

# the iterator structs are extracted verbatim (a field added to them is seen) and their constructors are under contract
PROPS['C02']['verus_only']['api'] += [r'CacheD::multi_get_iterator$', r'CacheD::multi_get_map_iterator$']

# C12: a poll is not atomic either - the worker's status write and flag store are placed at every point inside one real poll (instrumentation X2b)
PROPS['C12']['kani']['quick'] = PROPS['C12']['kani']['quick'] + ['ack/poll_is_correct_under_interference']
PROPS['C12']['floor'] = {'quick': 12, 'thorough': 12}
PROPS['C12']['assumptions'] = [a for a in PROPS['C12']['assumptions'] if not a.startswith('each top-level statement of done() and the whole of poll()')] + [
    'each top-level statement of done() and each top-level statement of poll() is one atomic step with respect to the three shared cells (one atomic load / store or one locked section each); '
    'inside a poll the environment is the worker executing done(): A1 status := s, A2 flag := true (in this order, checked on the real done() by kani:ack/done_keeps_j_at_every_point), A3 wake - A1 and A2 are placed at every '
    'point between the statements of the real poll (X2b), A3 after it (poll holds the waker lock)']
PROPS['C12']['explanation'] += (' A poll into which the worker\'s status write and flag store fall at arbitrary points is still either Ready(real status) or Pending with its waker registered and woken afterwards '
                                '(kani:ack/poll_is_correct_under_interference, all placements).')

# unit `store` also covers the reads: get / get_ref / contains (closures annotated, rule T7; Option::filter contract)
_READS = [r'Store::get$', r'Store::get_ref$', r'Store::contains$']
for _p in ('C02', 'C04', 'C09', 'C16'):
    if 'store' not in PROPS[_p].get('verus', []):
        PROPS[_p]['verus'] = PROPS[_p].get('verus', []) + ['store']
        PROPS[_p]['assumptions'] = PROPS[_p]['assumptions'] + STORE_ASSUME
    PROPS[_p].setdefault('verus_only', {})
    PROPS[_p]['verus_only']['store'] = PROPS[_p]['verus_only'].get('store', []) + _READS
for _p in ('C08', 'C09', 'C03'):
    if 'store' not in PROPS[_p].get('verus', []):
        PROPS[_p]['verus'] = PROPS[_p].get('verus', []) + ['store']
        PROPS[_p]['assumptions'] = PROPS[_p]['assumptions'] + STORE_ASSUME
    PROPS[_p].setdefault('verus_only', {})
    PROPS[_p]['verus_only']['store'] = PROPS[_p]['verus_only'].get('store', []) + [r'Store::update$']

# C03 also rests on "a put never overwrites a held entry": the physical-presence check (a liveness-aware is_present admits a second
# incarnation whose stale first id later removes the live key)
PROPS['C03']['verus_only']['store'] = PROPS['C03']['verus_only']['store'] + [r'Store::is_present$']
PROPS['C03']['kani']['quick'] = PROPS['C03']['kani']['quick'] + ['store/is_present_n2']
PROPS['C03']['kani_meta'].update(BND(['store/is_present_n2']))

# C09 "changing the time-to-live moves the deadline accordingly": the deadline the SWEEPER acts on is the ticker entry, so the upsert's
# ticker calls (old / new expiry in the right places) and the ticker's update belong to C09 as well
PROPS['C09']['verus'] = PROPS['C09']['verus'] + ['api', 'ticker']
PROPS['C09']['verus_only']['api'] = [r'CacheD::put_or_update$', r'CacheD::put_with_ttl$', r'CacheD::put_with_weight_and_ttl$']
PROPS['C09']['verus_only']['ticker'] = [r'TTLTicker::put$', r'TTLTicker::update$', r'TTLTicker::delete$']
PROPS['C09']['assumptions'] = PROPS['C09']['assumptions'] + API_ASSUME + TICKER_ASSUME

# unit `weights`: CacheWeight::{add, delete, is_space_available_for, get_weight_used, contains, weight_of, clear} for any number of residents
# and the full i64 range, against assumed DashMap / RwLock contracts (rule T15); `update` stays with Kani
WEIGHTS_ASSUME = ['dashmap::DashMap and parking_lot::RwLock<Weight> (ASSUMED contracts of the dependencies, unit `weights`): map calls act as on a mathematical map; '
                  'T15: `*guard += e` / `*guard -= e` / `*guard = e` / `*lock.read()` on the lock-protected total are written as methods of the guard stand-in; '
                  'that the delete hook is called exactly once with the id\'s key is decided by kani:cw/delete_n2 (a closure cannot carry the ghost token)']
for _p, _only in (('C01', [r'CacheWeight::add$', r'CacheWeight::delete$', r'CacheWeight::is_space_available_for$', r'CacheWeight::get_weight_used$', r'CacheWeight::clear$']),
                  ('C05', [r'CacheWeight::add$', r'CacheWeight::delete$', r'CacheWeight::contains$', r'CacheWeight::weight_of$']),
                  ('C06', [r'CacheWeight::is_space_available_for$', r'CacheWeight::add$', r'CacheWeight::delete$']),
                  ('C04', [r'CacheWeight::delete$']), ('C16', [r'CacheWeight::add$', r'CacheWeight::delete$']), ('C17', None)):
    PROPS[_p]['verus'] = PROPS[_p]['verus'] + ['weights']
    if _only is not None:
        PROPS[_p].setdefault('verus_only', {})['weights'] = _only
    PROPS[_p]['assumptions'] = PROPS[_p]['assumptions'] + WEIGHTS_ASSUME

# rule T16 (assignment through a map guard): Store::mark_deleted and CacheWeight::update / update_weight_stats are under contract too
PROPS['C04']['verus_only']['store'] = PROPS['C04']['verus_only']['store'] + [r'Store::mark_deleted$']
PROPS['C02']['verus_only']['store'] = PROPS['C02']['verus_only']['store'] + [r'Store::mark_deleted$']
PROPS['C05']['verus_only']['weights'] = PROPS['C05']['verus_only']['weights'] + [r'CacheWeight::update$']
PROPS['C01']['verus_only']['weights'] = PROPS['C01']['verus_only']['weights'] + [r'CacheWeight::update$']
PROPS['C16']['verus_only']['weights'] = PROPS['C16']['verus_only']['weights'] + [r'CacheWeight::update$', r'CacheWeight::update_weight_stats$']
PROPS['C08']['verus'] = PROPS['C08']['verus'] + ['weights']
PROPS['C08']['verus_only']['weights'] = [r'CacheWeight::update$']
PROPS['C08']['assumptions'] = PROPS['C08']['assumptions'] + WEIGHTS_ASSUME

# Pool::add is under contract too (rand's gen_range and the buffer lock are stand-ins)
PROPS['C15']['verus_only']['pool'] = PROPS['C15']['verus_only']['pool'] + [r'Pool::add$']
PROPS['C15']['assumptions'] = [a for a in PROPS['C15']['assumptions'] if not a.startswith('Pool::add picks a buffer')] + [
    'rand::Rng::gen_range(a..b) returns a value in [a, b) (ASSUMED); T4: `Vec<RwLock<Buffer>>` is declared `Vec<BufferLock>` whose guard\'s `add` carries the contract proved for Buffer::add']

# unit `config`: the wiring of the configuration into the parts (the sweeper gets the CONFIGURED clock, shards and tick; the admission policy
# the configured weight limit)
for _p, _only in (('C10', [r'Config::ttl_config$', r'TTLConfig::']), ('C09', [r'Config::ttl_config$', r'TTLConfig::']), ('C01', [r'Config::cache_weight_config$', r'CacheWeightConfig::'])):
    PROPS[_p]['verus'] = PROPS[_p]['verus'] + ['config']
    PROPS[_p].setdefault('verus_only', {})['config'] = _only
    PROPS[_p]['assumptions'] = PROPS[_p]['assumptions'] + ['unit `config`: a boxed clock is identified by an uninterpreted `which()`; clone_box gives the same clock, SystemClock::boxed() the system clock']

# C10 relies on the expiries an upsert REPORTS (before / after) to keep the ticker in step: Store::update and StoredValue::update belong to it
PROPS['C10']['verus'] = PROPS['C10']['verus'] + ['store']
PROPS['C10']['verus_only']['store'] = [r'Store::update$', r'Store::put_with_ttl$', r'Store::delete$']
PROPS['C10']['kani']['quick'] = PROPS['C10']['kani']['quick'] + ['sv/update_changes_exactly_what_was_requested', 'store/update_n2']
PROPS['C10']['kani_meta'].update(BND(['store/update_n2']))
PROPS['C10']['assumptions'] = PROPS['C10']['assumptions'] + STORE_ASSUME

# C06: admission asks the sketch about the hash that CacheD::key_description puts into the command, reads record the hash that
# mark_key_accessed computes - both must be the CONFIGURED hash of the key
PROPS['C06']['verus'] = PROPS['C06']['verus'] + ['api']
PROPS['C06'].setdefault('verus_only', {})['api'] = [r'CacheD::key_description$', r'CacheD::mark_key_accessed$',
                                                     # 'a put whose weight fits': the weight the admission decision is taken on is the one the put variant computes
                                                     # (the configured weight function with the right ttl flag, or the explicit weight [+ the ticker entry])
                                                     r'CacheD::put$', r'CacheD::put_with_weight$', r'CacheD::put_with_ttl$', r'CacheD::put_with_weight_and_ttl$']
PROPS['C06']['assumptions'] = PROPS['C06']['assumptions'] + API_ASSUME

# the wiring of CacheD::new / ttl_ticker (unit `config`): the configured values reach the parts
for _p, _only in (('C09', [r'CacheD::new$', r'CacheD::ttl_ticker$']), ('C10', [r'CacheD::new$', r'CacheD::ttl_ticker$']), ('C01', [r'CacheD::new$']), ('C13', [r'CacheD::new$']),
                  ('C14', [r'CacheD::new$'])):     # the ageing threshold is the CONFIGURED number of counters
    if 'config' not in PROPS[_p]['verus']:
        PROPS[_p]['verus'] = PROPS[_p]['verus'] + ['config']
    PROPS[_p].setdefault('verus_only', {})
    PROPS[_p]['verus_only']['config'] = PROPS[_p]['verus_only'].get('config', []) + _only
PROPS['C01']['verus_only']['weights'] = PROPS['C01']['verus_only']['weights'] + [r'CacheWeight::new$', r'CacheWeightConfig::']
PROPS['C09']['verus_only']['store'] = PROPS['C09']['verus_only']['store'] + [r'Store::new$']

# AdmissionPolicy: delete (no hook) and the constructors' wiring
for _p, _only in (('C04', [r'AdmissionPolicy::delete$']), ('C05', [r'AdmissionPolicy::delete$']), ('C01', [r'AdmissionPolicy::new$', r'AdmissionPolicy::with_channel_capacity$']),
                  ('C14', [r'AdmissionPolicy::new$', r'AdmissionPolicy::with_channel_capacity$']), ('C15', [r'AdmissionPolicy::with_channel_capacity$'])):
    if 'policy' not in PROPS[_p].get('verus', []):
        PROPS[_p]['verus'] = PROPS[_p].get('verus', []) + ['policy']
    PROPS[_p].setdefault('verus_only', {})
    if PROPS[_p]['verus_only'].get('policy') is None and 'policy' in PROPS[_p].get('verus', []) and _p in ('C04', 'C14'):
        PROPS[_p]['verus_only']['policy'] = []
    if 'policy' in PROPS[_p]['verus_only']:
        PROPS[_p]['verus_only']['policy'] = PROPS[_p]['verus_only']['policy'] + _only
PROPS['C15']['verus_only']['pool'] = PROPS['C15']['verus_only']['pool'] + [r'Buffer::new$', r'Pool::new$', r'Pool::add$']    # the record reaches exactly one of the pool_size buffers


# floors refreshed from the final run on the pinned tree (obligations + bounded checks + region covers of the quick tier; the thorough tier has at least as many)
PROPS['C01']['floor'] = {'quick': 34, 'thorough': 34}
PROPS['C02']['floor'] = {'quick': 24, 'thorough': 24}
PROPS['C03']['floor'] = {'quick': 22, 'thorough': 22}
PROPS['C04']['floor'] = {'quick': 16, 'thorough': 16}
PROPS['C05']['floor'] = {'quick': 35, 'thorough': 35}
PROPS['C06']['floor'] = {'quick': 32, 'thorough': 32}
PROPS['C07']['floor'] = {'quick': 17, 'thorough': 17}
PROPS['C08']['floor'] = {'quick': 19, 'thorough': 19}
PROPS['C09']['floor'] = {'quick': 27, 'thorough': 27}
PROPS['C10']['floor'] = {'quick': 32, 'thorough': 32}
PROPS['C11']['floor'] = {'quick': 12, 'thorough': 12}
PROPS['C12']['floor'] = {'quick': 12, 'thorough': 12}
PROPS['C13']['floor'] = {'quick': 22, 'thorough': 22}
PROPS['C14']['floor'] = {'quick': 41, 'thorough': 41}
PROPS['C15']['floor'] = {'quick': 18, 'thorough': 18}
PROPS['C16']['floor'] = {'quick': 33, 'thorough': 33}
PROPS['C17']['floor'] = {'quick': 173, 'thorough': 173}

# C06: the sampler reads the hash recorded in the weight table; an update of a weight must leave key and hash alone
PROPS['C06']['kani']['quick'] = PROPS['C06']['kani']['quick'] + ['cw/update_outside_region_n2']
PROPS['C06']['kani_meta'].update(BND(['cw/update_outside_region_n2']))
PROPS['C06']['verus_only']['weights'] = PROPS['C06']['verus_only']['weights'] + [r'CacheWeight::update$']
PROPS['C06']['floor'] = {'quick': 34, 'thorough': 34}



# ids are handed out on CLIENT threads (CacheD::key_description): two overlapping calls of IncreasingIdGenerator::next must not return the same id.
# Instrumentation X2c + one interfering call at any statement boundary of `next` (bounded: one interfering call, atomics are single steps).
for _p in PROPS:
    for _tier in ('quick', 'thorough'):
        _l = PROPS[_p].get('kani', {}).get(_tier, [])
        if 'idgen/ids_strictly_increase' in _l and 'idgen/overlapping_calls_get_distinct_ids' not in _l:
            PROPS[_p]['kani'][_tier] = _l + ['idgen/overlapping_calls_get_distinct_ids']
            PROPS[_p].setdefault('kani_meta', {}).update({'idgen/overlapping_calls_get_distinct_ids': dict(kind='bounded', note='one interfering call of next() at any statement boundary of next()')})
