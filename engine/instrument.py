#!/usr/bin/env python3
"""Mechanical, add-only instrumentations of the Kani scratch copy (never of /repo).

X1  thread bodies -> functions (filled in below as the units that need them are built)
X2  interference points in CommandAcknowledgementHandle::done
X3  std HashSet import of the eviction sampler -> stand-in set

A lost anchor raises InstrumentError -> the driver reports UNDECIDED (exit 2), never a violation.
"""
import os
import re
import sys

sys.path.insert(0, os.path.dirname(os.path.abspath(__file__)))
from extract import Source, code_mask, match_brace, first_open_brace, ExtractError  # noqa: E402


class InstrumentError(ExtractError):
    pass


def apply_all(crate):
    edits = []
    for fn in (x3_hashset,):
        e = fn(crate)
        if e:
            edits.append(e)
    return edits


def x3_hashset(crate):
    return None
