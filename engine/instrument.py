#!/usr/bin/env python3
"""Mechanical, add-only instrumentations of the Kani scratch copy (never of /repo).

X1  thread bodies -> functions (filled in below as the units that need them are built)
X2  interference points in CommandAcknowledgementHandle::done
X3  std HashSet import of the eviction sampler -> stand-in set

A lost anchor raises InstrumentError -> the driver reports UNDECIDED (exit 2), never a violation.
"""
import os
import re
import sys

sys.path.insert(0, os.path.dirname(os.path.abspath(__file__)))
from extract import Source, code_mask, match_brace, first_open_brace, ExtractError  # noqa: E402


class InstrumentError(ExtractError):
    pass


def top_level_statements(body_text, tail_is_statement=False):
    """body_text includes the outer braces.  Returns offsets (into body_text) just AFTER each
    top-level statement: a `;` at depth 1, or a `}` closing a depth-2 block that is not followed by
    `.`, `;`, `else`, `)` or `,` (so `if .. { }`, `match .. { }`, `while .. { }` statements)."""
    mask = code_mask(body_text)
    ends, depth, par = [], 0, 0
    i, n = 0, len(mask)
    while i < n:
        ch = mask[i]
        if ch in '([':
            par += 1
        elif ch in ')]':
            par -= 1
        elif ch == '{':
            depth += 1
        elif ch == '}':
            depth -= 1
            if depth == 1 and par == 0:
                k = i + 1
                while k < n and mask[k] in ' \t\n':
                    k += 1
                nxt = mask[k:k + 4]
                if not (nxt[:1] in '.;),?' or nxt.startswith('else')) and k < n and mask[k] != '}':
                    ends.append(i + 1)
                elif k < n and mask[k] == '}' and tail_is_statement:
                    # block statement in tail position of a unit function
                    ends.append(i + 1)
        elif ch == ';' and depth == 1 and par == 0:
            ends.append(i + 1)
        i += 1
    return ends


def x2_ack_points(crate):
    """X2: a call `verif_kani::point(self, k)` before the first and after every top-level statement of
    CommandAcknowledgementHandle::done (cfg(kani) only; nothing else changes)."""
    rel = 'src/cache/command/acknowledgement.rs'
    path = os.path.join(crate, rel)
    src = Source(path)
    loc = src.find_fn(r'^impl CommandAcknowledgementHandle$', 'done')
    body = src.text[loc['body_open']:loc['end']]
    unit_fn = '->' not in src.mask[loc['start']:loc['body_open']]
    ends = top_level_statements(body, tail_is_statement=unit_fn)
    if not ends:
        raise InstrumentError('X2: no top-level statements found in CommandAcknowledgementHandle::done')
    out, last = '', 0
    out += body[:1] + '\n        #[cfg(kani)] verif_kani::point(self, 0);'
    last = 1
    for k, e in enumerate(ends):
        out += body[last:e] + '\n        #[cfg(kani)] verif_kani::point(self, %d);' % (k + 1)
        last = e
    out += body[last:]
    new = src.text[:loc['body_open']] + out + src.text[loc['end']:]
    open(path, 'w').write(new)
    msg = 'X2 %s: %d interference points inserted in CommandAcknowledgementHandle::done (after each of its %d top-level statements)' % (rel, len(ends) + 1, len(ends))
    # X2b: the same inside `poll` (a poll is not atomic either: the worker's status write and flag store can land between any
    # two of its statements): `verif_kani::poll_point(&**self, k)` before the first and after every top-level statement of poll
    src = Source(path)
    loc = src.find_fn(r'^impl Future for &CommandAcknowledgementHandle$', 'poll')
    body = src.text[loc['body_open']:loc['end']]
    ends = top_level_statements(body, tail_is_statement=False)
    if not ends:
        raise InstrumentError('X2b: no top-level statements found in poll')
    out = body[:1] + '\n        #[cfg(kani)] verif_kani::poll_point(&**self, 0);'
    last = 1
    for k, e in enumerate(ends):
        out += body[last:e] + '\n        #[cfg(kani)] verif_kani::poll_point(&**self, %d);' % (k + 1)
        last = e
    out += body[last:]
    new = src.text[:loc['body_open']] + out + src.text[loc['end']:]
    open(path, 'w').write(new)
    return msg + '; X2b: %d interference points inserted in poll (after each of its %d top-level statements; the tail expression is not a statement)' % (len(ends) + 1, len(ends))


def x2c_idgen_points(crate):
    """X2c: a call `verif_kani::next_point(self, k)` before the first and after every top-level statement of
    IncreasingIdGenerator::next (cfg(kani) only): the places where another client thread's call of `next` can land.
    The tail expression is not a statement: a `next` that is one atomic read-modify-write has the single point 0."""
    rel = 'src/cache/unique_id/increasing_id_generator.rs'
    path = os.path.join(crate, rel)
    src = Source(path)
    loc = src.find_fn(r'^impl IncreasingIdGenerator$', 'next')
    body = src.text[loc['body_open']:loc['end']]
    ends = top_level_statements(body, tail_is_statement=False)
    out = body[:1] + '\n        #[cfg(kani)] verif_kani::next_point(self, 0);'
    last = 1
    for k, e in enumerate(ends):
        out += body[last:e] + '\n        #[cfg(kani)] verif_kani::next_point(self, %d);' % (k + 1)
        last = e
    out += body[last:]
    open(path, 'w').write(src.text[:loc['body_open']] + out + src.text[loc['end']:])
    return 'X2c %s: %d interference point(s) inserted in IncreasingIdGenerator::next (before its first and after each of its %d top-level statements)' % (rel, len(ends) + 1, len(ends))


def strip_test_modules(crate):
    """native replays only: remove every top-level `#[cfg(test)] mod .. { }` (and `#[cfg(test)] use ..;`)
    from the scratch copy so the replay build does not need the dev-dependencies"""
    n = 0
    for dp, _dn, fns in os.walk(os.path.join(crate, 'src')):
        for fn in fns:
            if not fn.endswith('.rs'):
                continue
            path = os.path.join(dp, fn)
            text = open(path, encoding='utf-8').read()
            while True:
                mask = code_mask(text)
                m = re.search(r'#\[cfg\(test\)\]\s*(?:pub(?:\([^)]*\))?\s+)?(mod\s+\w+\s*\{|use\b)', mask)
                if not m:
                    break
                if m.group(1).startswith('mod'):
                    ob = mask.index('{', m.start())
                    end = match_brace(mask, ob) + 1
                else:
                    end = mask.index(';', m.start()) + 1
                text = text[:m.start()] + text[end:]
                n += 1
            open(path, 'w').write(text)
    return 'native replay copy: %d #[cfg(test)] items removed' % n


def thread_loop_body(src, impl_re, fn_name):
    """text between the braces of `while let Ok(..) = receiver.recv() { .. }` inside
    `thread::spawn(move || { .. })` of the given function"""
    loc = src.find_fn(impl_re, fn_name)
    seg_mask = src.mask[loc['body_open']:loc['end']]
    m = re.search(r'thread::spawn\s*\(\s*move\s*\|\|\s*\{', seg_mask)
    if not m:
        raise InstrumentError('X1: thread::spawn(move || {..}) not found in %s' % fn_name)
    w = re.search(r'while\s+let\s+Ok\((\w+)\)\s*=\s*receiver\.recv\(\)\s*\{', seg_mask[m.end():])
    if not w:
        raise InstrumentError('X1: `while let Ok(x) = receiver.recv()` not found in %s' % fn_name)
    ob = loc['body_open'] + m.end() + w.end() - 1
    cb = match_brace(src.mask, ob)
    return src.text[ob + 1:cb], w.group(1), src.line_of(ob)


X1_SITES = [
    # (file, impl regex, fn, generated header; `{var}` is the loop variable bound by `while let Ok(var)`)
    ('src/cache/expiration/mod.rs', r'^impl TTLTicker$', 'spin',
     '''#[cfg(kani)]
impl TTLTicker {{
    /// X1: one iteration of the sweeper thread's loop, body copied verbatim from `spin` (line {line})
    #[allow(unused_variables, unreachable_code, clippy::never_loop)]
    pub(crate) fn verif_sweep_step<EvictHook>(self: Arc<TTLTicker>, clock: ClockType, evict_hook: EvictHook,
                                             keep_running: Arc<AtomicBool>, receiver: crossbeam_channel::Receiver<std::time::Instant>, {var}: std::time::Instant)
        where EvictHook: Fn(&KeyId) + Send + Sync + 'static {{
        loop {{
{body}
            break;
        }}
    }}
}}
'''),
    ('src/cache/command/command_executor.rs', r'^impl<Key, Value> CommandExecutor<Key, Value>', 'spin',
     '''#[cfg(kani)]
impl<Key, Value> CommandExecutor<Key, Value>
    where Key: Hash + Eq + Send + Sync + Clone + 'static,
          Value: Send + Sync + 'static {{
    /// X1: one iteration of the command worker's loop, body copied verbatim from `spin` (line {line})
    #[allow(unused_variables, unreachable_code, clippy::never_loop)]
    pub(crate) fn verif_worker_step<DeleteHook>(receiver: Receiver<CommandAcknowledgementPair<Key, Value>>,
                                               store: Arc<Store<Key, Value>>,
                                               admission_policy: Arc<AdmissionPolicy<Key>>,
                                               stats_counter: Arc<ConcurrentStatsCounter>,
                                               ttl_ticker: Arc<TTLTicker>,
                                               delete_hook: DeleteHook,
                                               {var}: CommandAcknowledgementPair<Key, Value>)
        where DeleteHook: Fn(Key) {{
        loop {{
{body}
            break;
        }}
    }}
}}
'''),
    ('src/cache/policy/admission_policy.rs', r'^impl<Key> AdmissionPolicy<Key>', 'start',
     '''#[cfg(kani)]
impl<Key> AdmissionPolicy<Key>
    where Key: Hash + Eq + Send + Sync + Clone + 'static, {{
    /// X1: one iteration of the access-count consumer's loop, body copied verbatim from `start` (line {line})
    #[allow(unused_variables, unreachable_code, clippy::never_loop)]
    pub(crate) fn verif_consumer_step(receiver: Receiver<BufferEvent>, access_frequency: Arc<RwLock<TinyLFU>>,
                                      keep_running: Arc<AtomicBool>, {var}: BufferEvent) {{
        loop {{
{body}
            break;
        }}
    }}
}}
'''),
]


def x1_thread_bodies(crate):
    edits = []
    for (rel, impl_re, fn, tpl) in X1_SITES:
        path = os.path.join(crate, rel)
        src = Source(path)
        body, var, line = thread_loop_body(src, impl_re, fn)
        with open(path, 'a') as f:
            f.write('\n' + tpl.format(body=body.rstrip(), var=var, line=line))
        edits.append('X1 %s: body of the `while let Ok(%s) = receiver.recv()` loop in %s (line %d) copied verbatim into a cfg(kani) function; '
                     'dropped: the recv() header, i.e. one call = one iteration' % (rel, var, fn, line))
    return '; '.join(edits)


def x3_hashset(crate):
    """X3: the eviction sampler's `std::collections::{BinaryHeap, HashSet}` (intractable for CBMC: SipHash +
    hashbrown SIMD probing; Vec-backed heap with raw-pointer sifting) are bound to small stand-ins under
    cfg(kani).  Only the import line changes."""
    rel = 'src/cache/policy/cache_weight.rs'
    path = os.path.join(crate, rel)
    text = open(path, encoding='utf-8').read()
    m = re.search(r'(?m)^use std::collections::\{([^}]*)\};[ \t]*$', text)
    if not m:
        raise InstrumentError('X3: `use std::collections::{..};` not found in ' + rel)
    names = [n.strip() for n in m.group(1).split(',') if n.strip()]
    swapped = [n for n in names if n in ('HashSet', 'BinaryHeap')]
    if not swapped:
        raise InstrumentError('X3: neither HashSet nor BinaryHeap is imported from std::collections in ' + rel)
    rest = [n for n in names if n not in swapped]
    new = ''
    if rest:
        new += 'use std::collections::{%s};\n' % ', '.join(rest)
    new += '#[cfg(kani)] use crate::verif_stubs::{%s};\n#[cfg(not(kani))] use std::collections::{%s};' % (', '.join(swapped), ', '.join(swapped))
    text = text[:m.start()] + new + text[m.end():]
    open(path, 'w').write(text)
    return ('X3 %s: imports of %s bound to the stand-ins in crate::verif_stubs under cfg(kani) (assumed contracts: HashSet is a set; '
            'BinaryHeap::pop returns an element that no other element exceeds under Ord)' % (rel, ' and '.join(swapped)))


def apply_all(crate):
    edits = []
    for fn in (x1_thread_bodies, x2_ack_points, x2c_idgen_points, x3_hashset):
        e = fn(crate)
        if e:
            edits.append(e)
    return edits
