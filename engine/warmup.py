#!/usr/bin/env python3
import os, sys
sys.path.insert(0, os.path.dirname(os.path.abspath(__file__)))
import kani_unit
root, crate, edits = kani_unit.prepare()
try:
    res, out, cmd, wall, rc = kani_unit.run(crate, ['cache::lfu::frequency_counter::verif_kani::counters_one_region_cover'], jobs=1, timeout_s=1200)
    print('kani warm-up: rc=%s wall=%.0fs' % (rc, wall))
finally:
    kani_unit.cleanup(root)
