#!/usr/bin/env python3
"""Regenerate /verif/MANIFEST.json from engine/proptable.py and engine/not_applicable.json."""
import json
import os
import sys

HERE = os.path.dirname(os.path.abspath(__file__))
VERIF = os.path.dirname(HERE)
sys.path.insert(0, HERE)
from proptable import PROPS  # noqa: E402

ids = [json.loads(l)['id'] for l in open(os.path.join(VERIF, 'properties.jsonl'))]
na = json.load(open(os.path.join(HERE, 'not_applicable.json')))
checks = []
for pid in ids:
    if pid not in PROPS:
        continue
    s = PROPS[pid]
    engines = []
    if s.get('verus'):
        engines.append('Verus (z3): requires/ensures/invariants on functions extracted from /repo on every run')
    if s.get('kani', {}).get('quick') or s.get('kani', {}).get('thorough'):
        engines.append('Kani/CBMC: Hoare-triple harnesses on the unmodified functions (complete where loop-free, else bounded(N))')
    checks.append(dict(
        property_id=pid,
        quick_cmd='./vcheck %s --tier quick' % pid,
        thorough_cmd='./vcheck %s --tier thorough' % pid,
        evidence_file='/verif/evidence/%s.json' % pid,
        replay_cmd_template='./vcheck replay {path}',
        engine='contracts',
        level_claimed=dict(category=s.get('level', 'proof'), text=s.get('level_text', s.get('explanation', '')), design_ref='DESIGN.md section 5/' + pid),
        level_note=' | '.join(s.get('assumptions', []) + (['BOUNDED part: ' + s['bounded_note']] if s.get('bounded_note') else [])
                              + ['NOT covered: ' + x for x in s.get('not_covered', [])]),
        technique=s.get('technique', 'contract-based deductive verification: ' + ' + '.join(engines)),
    ))
m = dict(
    version=1,
    setup_cmd='./setup.sh',
    hooks=dict(guard='none: /repo carries no verification hooks; all instrumentation (harness modules, X1/X2/X3) is applied to scratch copies at check time',
               enable='n/a (checks copy /repo\'s working tree to a scratch directory and add cfg(kani)-guarded modules there)',
               baseline_off_cmd='cd /repo && cargo test --workspace --no-fail-fast --offline',
               source_commits=[], add_only=True),
    engines=[dict(name='contracts', path='/verif/engine', serves_properties=[c['property_id'] for c in checks],
                  kind_free_text='contract-based deductive verification: Verus on mechanically extracted functions; Kani/CBMC function-level Hoare triples on the real crate')],
    checks=checks,
    not_applicable=[dict(property_id=p, reason=na[p]) for p in ids if p not in PROPS],
    notes='See DESIGN.md. Exit 2 from a check means UNDECIDED (tool limit), never a violation.',
)
missing = [p for p in ids if p not in PROPS and p not in na]
if missing:
    print('properties neither claimed nor listed not_applicable:', missing)
    sys.exit(1)
json.dump(m, open(os.path.join(VERIF, 'MANIFEST.json'), 'w'), indent=1)
print('MANIFEST.json: %d checks, %d not applicable' % (len(checks), len(m['not_applicable'])))
