#!/usr/bin/env python3
"""Replay files and native replays.

A replay file (/verif/replays/<id>/<obligation>.json) always names the failed obligation and
carries the verifier's output.  When Kani produced a concrete counterexample, its playback unit
test is stored too and is re-executed natively (`cargo kani playback`: the harness runs as an
ordinary Rust test on the concrete values, on a scratch copy of /repo's current tree built against
the REAL dashmap / hashbrown / bloomfilter crates, not the stand-ins).  `replayed` records whether
that native run reproduced the failure.
"""
import json
import os
import re
import shutil
import subprocess
import sys
import tempfile

HERE = os.path.dirname(os.path.abspath(__file__))
VERIF = os.path.dirname(HERE)


def safe(name):
    return re.sub(r'[^A-Za-z0-9_.-]+', '_', name)[:150]


def write_replay(pid, v, spec, repo):
    d = os.path.join(VERIF, 'replays', pid)
    os.makedirs(d, exist_ok=True)
    path = os.path.join(d, safe(v['obligation']) + '.json')
    rec = dict(property=pid, failed_obligation=v['obligation'], engine=v['engine'], verifier_output=v.get('detail', ''),
               harness=v.get('harness'), playback_test=v.get('playback'), playback_cmd=v.get('playback_cmd'),
               repo=repo, replayed=False, replay_output='')
    if v.get('playback') and v.get('harness') and os.environ.get('VERIF_NO_NATIVE_REPLAY') != '1':
        try:
            ok, out = run_playback(repo, v['harness'], v['playback'])
            rec['replayed'] = ok
            rec['replay_output'] = out[-6000:]
        except Exception as e:  # a replay problem never changes the verdict
            rec['replay_output'] = 'native replay could not be run: %r' % (e,)
    v['replayed'] = rec['replayed']
    json.dump(rec, open(path, 'w'), indent=1)
    return path


def run_playback(repo, harness, playback_src):
    """returns (failure_reproduced, output)"""
    import kani_unit
    root, crate, edits = kani_unit.prepare(repo, real_deps=True)
    try:
        # place the generated test inside the harness' module file? -> simpler: append to the target module
        mod_path = harness.split('::verif_kani::')[0]
        rel = None
        for target, h in kani_unit.INJECT.items():
            tm = target[len('src/'):-3].replace('/', '::')
            tm = re.sub(r'::mod$', '', tm)
            if tm == mod_path:
                rel = target
        if rel is None:
            return False, 'cannot locate the module of harness %s' % harness
        hp = os.path.join(kani_unit.HARNESS_DIR, kani_unit.INJECT[rel])
        # the playback test must live in the same module as the harness: copy the harness file and append it
        local = os.path.join(crate, 'verif_harness_copy.rs')
        src = open(hp).read() + '\n' + playback_src + '\n'
        open(local, 'w').write(src)
        tp = os.path.join(crate, rel)
        t = open(tp).read().replace('#[path = "%s"]' % hp, '#[path = "%s"]' % local)
        open(tp, 'w').write(t)
        tm = re.search(r'fn (kani_concrete_playback_\w+)', playback_src)
        test = tm.group(1) if tm else 'kani_concrete_playback'
        env = dict(os.environ)
        env['CARGO_NET_OFFLINE'] = 'true'
        env.pop('RUSTUP_TOOLCHAIN', None)
        env['CARGO_TARGET_DIR'] = kani_unit.TARGET_DIR + '-playback'
        cmd = ['cargo', 'kani', 'playback', '-Z', 'concrete-playback', '--', test]
        p = subprocess.run(cmd, cwd=crate, stdout=subprocess.PIPE, stderr=subprocess.STDOUT, text=True, env=env, timeout=1500)
        out = p.stdout
        reproduced = bool(re.search(r'test result: FAILED|panicked at', out)) and 'could not compile' not in out
        return reproduced, ' '.join(cmd) + '\n' + out
    finally:
        kani_unit.cleanup(root)


def replay_file(path):
    rec = json.load(open(path))
    print('failed obligation:', rec['failed_obligation'])
    print(rec['verifier_output'])
    if rec.get('playback_test') and rec.get('harness'):
        ok, out = run_playback(rec.get('repo', '/repo'), rec['harness'], rec['playback_test'])
        print(out[-4000:])
        print('REPRODUCED' if ok else 'not reproduced')
        return 1 if ok else 0
    print('no concrete input recorded (no-failing-input-found)')
    return 0
