#!/bin/sh
# Offline setup: nothing to download.  Pre-builds the Kani dependency artifacts (stand-in crates and
# registry crates) so that the first check does not pay for them, and warms up Verus.
set -e
cd "$(dirname "$0")"
mkdir -p build evidence replays
export CARGO_NET_OFFLINE=true
python3 engine/warmup.py || true
exit 0
